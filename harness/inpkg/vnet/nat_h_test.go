package vnet

import (
	"bytes"
	"errors"
	"fmt"
	"net"
	"sort"
	"strings"
	"testing"
	"time"

	"github.com/pion/logging"
	"github.com/pion/transport/v3/verifshim/vh"
)

func verifUDPAddr(s string) *net.UDPAddr {
	i := strings.LastIndex(s, ":")
	return &net.UDPAddr{IP: net.ParseIP(s[:i]).To4(), Port: vh.Atoi(s[i+1:])}
}

type verifNAT struct {
	n *networkAddressTranslator
	// real time is not part of the model: the harness measures how much of it has passed since the case
	// began and at each mapping's last refresh, and takes it out of the remaining lifetimes it reports
	start   time.Time
	lastExp map[*mapping]time.Time
	drift   map[*mapping]time.Duration
}

// note records, for every mapping whose expiry stamp was set by the NAT since the last look, how much
// real time had passed then.
func (v *verifNAT) note() {
	if v.lastExp == nil {
		v.lastExp, v.drift, v.start = map[*mapping]time.Time{}, map[*mapping]time.Duration{}, time.Now()
	}
	d := time.Since(v.start)
	for _, m := range v.n.outboundMap {
		if !v.lastExp[m].Equal(m.expires) {
			v.lastExp[m] = m.expires
			v.drift[m] = d
		}
	}
}

func verifNewNAT(cfg []string) *verifNAT {
	lf := logging.NewDefaultLoggerFactory()
	var c *natConfig
	switch cfg[0] {
	case "napt":
		c = &natConfig{
			name: "v",
			natType: NATType{
				MappingBehavior:   EndpointDependencyType(vh.Atoi(cfg[1])),
				FilteringBehavior: EndpointDependencyType(vh.Atoi(cfg[2])),
				MappingLifeTime:   time.Duration(vh.Atoi(cfg[3])) * time.Millisecond,
			},
			mappedIPs:     []net.IP{net.ParseIP(cfg[4])},
			loggerFactory: lf,
		}
	case "one2one":
		c = &natConfig{name: "v", natType: NATType{Mode: NATModeNAT1To1, MappingBehavior: EndpointAddrPortDependent}, loggerFactory: lf}
		if cfg[1] != "-" {
			for _, s := range strings.Split(cfg[1], ",") {
				c.mappedIPs = append(c.mappedIPs, net.ParseIP(s))
			}
		}
		if cfg[2] != "-" {
			for _, s := range strings.Split(cfg[2], ",") {
				c.localIPs = append(c.localIPs, net.ParseIP(s))
			}
		}
	}
	n, err := newNAT(c)
	if err != nil {
		return &verifNAT{}
	}
	return &verifNAT{n: n}
}

// shift moves the clock forward by d as far as the NAT can tell: every expiry stamp moves back.
func (v *verifNAT) shift(d time.Duration) {
	v.note()
	defer func() {
		for m := range v.lastExp {
			v.lastExp[m] = m.expires
		}
	}()
	seen := map[*mapping]bool{}
	for _, m := range v.n.outboundMap {
		if !seen[m] {
			seen[m] = true
			m.expires = m.expires.Add(-d)
		}
	}
	for _, m := range v.n.inboundMap {
		if !seen[m] {
			seen[m] = true
			m.expires = m.expires.Add(-d)
		}
	}
}

func verifFloorDiv(a, b int64) int64 {
	q := a / b
	if (a%b != 0) && ((a < 0) != (b < 0)) {
		q--
	}
	return q
}

func (v *verifNAT) state() string {
	n := v.n
	v.note()
	if len(n.outboundMap) > 12 || len(n.inboundMap) > 12 {
		return fmt.Sprintf("c=%d n=%d,%d", n.udpPortCounter, len(n.outboundMap), len(n.inboundMap))
	}
	now := time.Now()
	sinceStart := time.Since(v.start)
	var o, in []string
	for _, m := range n.outboundMap {
		var fl []string
		for k := range m.filters {
			if k == "" {
				k = "*"
			}
			fl = append(fl, k)
		}
		sort.Strings(fl)
		b := m.bound
		if b == "" {
			b = "*"
		}
		id := vh.Atoi(m.mapped[strings.LastIndex(m.mapped, ":")+1:]) - 0xC000
		rem := verifFloorDiv((m.expires.Sub(now)+sinceStart-v.drift[m]).Milliseconds()+250, 1000)
		o = append(o, fmt.Sprintf("%d/%s/%s/%s/%d", id, m.local, b, strings.Join(fl, ","), rem))
	}
	for k, m := range n.inboundMap {
		id := vh.Atoi(m.mapped[strings.LastIndex(m.mapped, ":")+1:]) - 0xC000
		in = append(in, fmt.Sprintf("%d@%s", id, strings.TrimPrefix(k, "udp:")))
	}
	sort.Strings(o)
	sort.Strings(in)
	return fmt.Sprintf("c=%d out=[%s] in=[%s]", n.udpPortCounter, strings.Join(o, ";"), strings.Join(in, ";"))
}

func (v *verifNAT) op(f []string) (out string) {
	if v.n == nil {
		return "noctor"
	}
	defer func() {
		if r := recover(); r != nil {
			out = "nomapped"
		}
	}()
	payload := []byte{1, 2, 3, byte(len(f[1]))}
	switch f[0] {
	case "o":
		src, dst := verifUDPAddr(f[1]), verifUDPAddr(f[2])
		c := newChunkUDP(src, dst)
		c.userData = append([]byte{}, payload...)
		to, err := v.n.translateOutbound(c)
		switch {
		case err != nil && strings.Contains(err.Error(), "invalid port"):
			return "badport"
		case err != nil:
			return "err " + err.Error()
		case to == nil:
			return "drop"
		}
		out = "ok " + to.SourceAddr().String()
		if to.DestinationAddr().String() != dst.String() || !bytes.Equal(to.UserData(), payload) || c.SourceAddr().String() != src.String() {
			out += " altered"
		}
	case "i":
		src, dst := verifUDPAddr(f[1]), verifUDPAddr(f[2])
		c := newChunkUDP(src, dst)
		c.userData = append([]byte{}, payload...)
		to, err := v.n.translateInbound(c)
		switch {
		case errors.Is(err, errNoAssociatedLocalAddress):
			return "noassoc"
		case errors.Is(err, errNoNATBindingFound):
			return "nobind"
		case errors.Is(err, errHasNoPermission):
			return "noperm"
		case err != nil:
			return "err " + err.Error()
		case to == nil:
			return "drop"
		}
		out = "ok " + to.DestinationAddr().String()
		if to.SourceAddr().String() != src.String() || !bytes.Equal(to.UserData(), payload) {
			out += " altered"
		}
	case "adv":
		v.shift(time.Duration(vh.Atoi(f[1])) * time.Millisecond)
		out = "-"
	case "ctr":
		// white-box jump: as if f[1] allocations had already been made (and had expired)
		v.n.udpPortCounter = vh.Atoi(f[1])
		out = "-"
	default:
		out = "bad-op"
	}
	return out
}

var (
	verifInternal = []string{"10.0.0.2:5000", "10.0.0.2:5001", "10.0.0.3:5000", "10.0.0.34:56", "10.0.0.3:456", "10.0.0.4:6000", "10.0.0.2:500", "10.0.0.2:5005"}
	verifRemotes  = []string{"5.6.7.8:80", "5.6.7.8:81", "5.6.7.9:80", "9.9.9.9:53", "5.6.7.89:8", "5.6.7.8:98", "55.6.7.8:80"}
)

func verifNATGen(r *vh.Rng, o *vh.Out, id string, long bool) {
	var cfg string
	// Real time passes between the calls (microseconds, but seconds when the machine is overloaded), and
	// the NAT reads the real clock: every step is a multiple of 10 s and every lifetime ends in 5 s, so no
	// sum of steps comes closer than 5 s to a lifetime and the expiry decisions do not depend on the load.
	lifetime := 35000
	steps := []int{0, 0, 10000, 20000, 30000, 40000, 70000}
	one := false
	switch c := r.Intn(100); {
	case c < 12:
		one = true
		k := r.Intn(4)
		var ms, ls []string
		for i := 0; i < k; i++ {
			ms = append(ms, fmt.Sprintf("27.1.1.%d", i+1))
			ls = append(ls, fmt.Sprintf("10.0.0.%d", i+2))
		}
		if r.Chance(10) && k > 0 {
			ls = ls[:k-1] // mismatching lengths: constructor error
		}
		j := func(x []string) string {
			if len(x) == 0 {
				return "-"
			}
			return strings.Join(x, ",")
		}
		cfg = fmt.Sprintf("one2one %s %s", j(ms), j(ls))
	default:
		if r.Chance(25) {
			lifetime = r.Pick(15000, 5000, 65000)
			steps = []int{0, 10000, lifetime - 5000, lifetime + 5000, 2 * lifetime, 20000}
		}
		if r.Chance(10) {
			lifetime = 0 // default 30 s: steps are multiples of 20 s, at least 10 s away from 30 s in any sum
			steps = []int{0, 20000, 20000, 40000}
		}
		cfg = fmt.Sprintf("napt %d %d %d 27.1.1.1", r.Intn(3), r.Intn(3), lifetime)
	}
	o.Case(id, cfg)
	v := verifNewNAT(vh.Fields(cfg))
	do := func(op string) string {
		out := v.op(vh.Fields(op))
		st := "-"
		if v.n != nil {
			st = v.state()
		}
		o.Op(op, out, st)
		return out
	}
	if v.n == nil {
		do("o 10.0.0.2:5000 5.6.7.8:80")
		return
	}
	var exts []string
	n := 15 + r.Intn(65)
	if !long && !one && r.Chance(6) {
		do(fmt.Sprintf("ctr %d", 16384-r.Intn(12)))
	}
	if long {
		// more allocations than there are ports in the dynamic range
		for k := 0; k < 16390; k++ {
			do(fmt.Sprintf("o 10.0.%d.%d:%d 5.6.7.8:80", k/60000+1, (k/250)%250+1, 1000+k%250))
		}
		n = 30
	}
	for k := 0; k < n; k++ {
		switch c := r.Intn(100); {
		case c < 45:
			out := do(fmt.Sprintf("o %s %s", verifInternal[r.Intn(len(verifInternal))], verifRemotes[r.Intn(len(verifRemotes))]))
			if strings.HasPrefix(out, "ok ") {
				exts = append(exts, strings.Fields(out)[1])
			}
		case c < 80:
			// inbound: to a known external address, to a never allocated one, or to an internal one
			var ext string
			switch {
			case len(exts) > 0 && r.Chance(75):
				ext = exts[r.Intn(len(exts))]
			case r.Chance(50):
				ext = fmt.Sprintf("27.1.1.1:%d", 49152+r.Intn(40))
			case one:
				ext = fmt.Sprintf("27.1.1.%d:%d", 1+r.Intn(5), 5000+r.Intn(2))
			default:
				ext = fmt.Sprintf("27.1.1.%d:%d", 1+r.Intn(2), r.Pick(49151, 49152, 65535, 1024))
			}
			do(fmt.Sprintf("i %s %s", verifRemotes[r.Intn(len(verifRemotes))], ext))
		default:
			do(fmt.Sprintf("adv %d", steps[r.Intn(len(steps))]))
		}
	}
}

func TestVerifNAT(t *testing.T) {
	vh.RunShards(func(shard int, r *vh.Rng, o *vh.Out, n int) {
		for i := 0; i < n; i++ {
			long := shard == 0 && i == 0 && vh.Thorough()
			verifNATGen(r, o, fmt.Sprintf("%d.%d", shard, i), long)
		}
	}, func(cs []vh.Case, o *vh.Out) {
		for _, c := range cs {
			o.Case(c.ID, strings.Join(c.Cfg, " "))
			v := verifNewNAT(c.Cfg)
			for _, f := range c.Ops {
				st := "-"
				out := v.op(f)
				if v.n != nil {
					st = v.state()
				}
				o.Op(strings.Join(f, " "), out, st)
			}
		}
	})
}
