package vnet

import (
	"fmt"
	"math/rand"
	"net"
	"testing"

	"github.com/pion/transport/v3"
	"github.com/pion/transport/v3/verifshim/vh"
)

// verifSinkNIC records what a filter hands downstream.
type verifSinkNIC struct {
	got []Chunk
}

func (n *verifSinkNIC) getInterface(string) (*transport.Interface, error) { return nil, nil } //nolint:nilnil
func (n *verifSinkNIC) onInboundChunk(c Chunk)                            { n.got = append(n.got, c) }
func (n *verifSinkNIC) getStaticIPs() []net.IP                            { return nil }
func (n *verifSinkNIC) setRouter(*Router) error                           { return nil }

func verifLossCase(o *vh.Out, id string, chance int, seed int64, payloads [][]byte, statN int) {
	o.Case(id, fmt.Sprintf("%d", chance))
	sink := &verifSinkNIC{}
	f, err := NewLossFilter(sink, chance)
	if err != nil {
		panic(err)
	}
	// predict the draws: the filter uses the global math/rand source, one Intn(100) per datagram
	rand.Seed(seed) //nolint:staticcheck
	draws := make([]int, len(payloads))
	for i := range draws {
		draws[i] = rand.Intn(100) //nolint:gosec
	}
	rand.Seed(seed) //nolint:staticcheck
	src := &net.UDPAddr{IP: net.ParseIP("1.2.3.4"), Port: 1000}
	dst := &net.UDPAddr{IP: net.ParseIP("5.6.7.8"), Port: 2000}
	for i, p := range payloads {
		c := newChunkUDP(src, dst)
		c.userData = append([]byte{}, p...)
		before := len(sink.got)
		f.onInboundChunk(c)
		out := "drop"
		switch len(sink.got) - before {
		case 0:
		case 1:
			g := sink.got[len(sink.got)-1]
			out = "fwd " + vh.Hex(g.UserData())
			if g != Chunk(c) || g.SourceAddr().String() != src.String() || g.DestinationAddr().String() != dst.String() {
				out += " altered"
			}
		default:
			out = fmt.Sprintf("dup %d", len(sink.got)-before)
		}
		o.Op(fmt.Sprintf("c %d %s", draws[i], vh.Hex(p)), out, "")
	}
	if statN > 0 {
		// long stream, unscripted draws: dropped fraction within 6 sigma of chance/100
		before := len(sink.got)
		for i := 0; i < statN; i++ {
			f.onInboundChunk(newChunkUDP(src, dst))
		}
		dropped := statN - (len(sink.got) - before)
		p := chance
		if p < 0 {
			p = 0
		}
		if p > 100 {
			p = 100
		}
		// (dropped*100 - N*p)^2 <= 36 * N * p * (100-p)   [variance N*p/100*(1-p/100), scaled by 100^2]
		d := int64(dropped)*100 - int64(statN)*int64(p)
		res := "stat-ok"
		if d*d > 36*int64(statN)*int64(p)*int64(100-p) {
			res = fmt.Sprintf("stat-bad dropped=%d of %d", dropped, statN)
		}
		o.Op(fmt.Sprintf("stat %d", statN), res, "")
	}
}

func TestVerifLoss(t *testing.T) {
	// the global math/rand source is shared: shards run one after another
	vh.RunShardsSerial(func(shard int, r *vh.Rng, o *vh.Out, n int) {
		for i := 0; i < n; i++ {
			chance := r.Intn(111) - 5
			if r.Chance(30) {
				chance = r.Pick(0, 100, 1, 99, 50, -1, 101, 1000, -1000)
			}
			k := 5 + r.Intn(60)
			payloads := make([][]byte, k)
			for j := range payloads {
				payloads[j] = r.Bytes(r.Intn(12))
			}
			statN := 0
			if r.Chance(10) {
				statN = 20000
			}
			verifLossCase(o, fmt.Sprintf("%d.%d", shard, i), chance, int64(r.U64()>>1), payloads, statN)
		}
	}, func(cs []vh.Case, o *vh.Out) {
		for _, c := range cs {
			// replay: the recorded draws cannot be forced onto math/rand; search a seed is not possible,
			// so replays re-run the payloads with the draws re-predicted from a fixed seed.
			var payloads [][]byte
			statN := 0
			for _, f := range c.Ops {
				if f[0] == "c" {
					payloads = append(payloads, vh.UnHex(f[2]))
				} else if f[0] == "stat" {
					statN = vh.Atoi(f[1])
				}
			}
			verifLossCase(o, c.ID, vh.Atoi(c.Cfg[0]), 12345, payloads, statN)
		}
	})
}
