package vnet

import (
	"errors"
	"fmt"
	"math/rand"
	"net"
	"sort"
	"strings"
	"testing"

	"github.com/pion/logging"
	"github.com/pion/transport/v3/verifshim/vh"
)

// ---- router address assignment ----

func verifRouterState(r *Router) string {
	var ips []string
	for k := range r.nics {
		ips = append(ips, k)
	}
	sort.Slice(ips, func(i, j int) bool {
		return verifIPNum(ips[i]) < verifIPNum(ips[j])
	})
	return fmt.Sprintf("%d %s", r.lastID, strings.Join(ips, ","))
}

func verifIPNum(s string) uint32 {
	ip := net.ParseIP(s).To4()
	return uint32(ip[0])<<24 | uint32(ip[1])<<16 | uint32(ip[2])<<8 | uint32(ip[3])
}

func verifRouterOp(r *Router, f []string) string {
	var cfg NetConfig
	if f[0] == "static" {
		cfg.StaticIPs = strings.Split(f[1], ",")
	}
	n, err := NewNet(&cfg)
	if err != nil {
		return "err " + err.Error()
	}
	err = r.AddNet(n)
	switch {
	case errors.Is(err, errAddressSpaceExhausted):
		return "exhausted"
	case errors.Is(err, errStaticIPisBeyondSubnet):
		return "beyond"
	case err != nil:
		return "err " + err.Error()
	}
	ifc, err := n.InterfaceByName("eth0")
	if err != nil {
		return "err " + err.Error()
	}
	addrs, _ := ifc.Addrs()
	var ips []string
	for _, a := range addrs {
		ips = append(ips, a.(*net.IPNet).IP.String()) //nolint:forcetypeassert
	}
	return "ok " + strings.Join(ips, ",")
}

func verifRouterGen(r *vh.Rng, o *vh.Out, id string) {
	cidr, netip, bits := "10.0.0.0/24", "10.0.0.0", 24
	switch r.Intn(6) {
	case 0:
		cidr, netip, bits = "10.1.0.0/16", "10.1.0.0", 16
	case 1:
		cidr, netip, bits = "1.2.3.128/25", "1.2.3.128", 25
	case 2:
		cidr, netip, bits = "1.2.3.0/25", "1.2.3.0", 25
	}
	o.Case(id, fmt.Sprintf("%s %d", netip, bits))
	rt, err := NewRouter(&RouterConfig{CIDR: cidr, LoggerFactory: logging.NewDefaultLoggerFactory()})
	if err != nil {
		panic(err)
	}
	base := netip[:strings.LastIndex(netip, ".")]
	used := map[string]bool{}
	steps := 4 + r.Intn(20)
	if r.Chance(8) {
		steps = 300 // more NICs than addresses
	}
	if r.Chance(5) {
		// the end of the pool: a few static addresses near .254 (and elsewhere), then automatic
		// attachments until well past exhaustion
		var st []string
		for _, last := range []int{254, 253, 252, 200, 2} {
			if r.Chance(50) {
				st = append(st, fmt.Sprintf("%s.%d", base, last))
			}
		}
		for _, ip := range st {
			op := "static " + ip
			o.Op(op, verifRouterOp(rt, vh.Fields(op)), verifRouterState(rt))
		}
		for k := 0; k < 258; k++ {
			o.Op("auto", verifRouterOp(rt, []string{"auto"}), verifRouterState(rt))
		}
		return
	}
	for k := 0; k < steps; k++ {
		var op string
		if r.Chance(35) {
			cnt := 1
			if r.Chance(20) {
				cnt = 2 + r.Intn(2)
			}
			var ips []string
			for len(ips) < cnt {
				var ip string
				switch r.Intn(5) {
				case 0, 1: // inside the automatic range, just ahead of lastID
					ip = fmt.Sprintf("%s.%d", base, int(rt.lastID)+1+r.Intn(4))
				case 2:
					ip = fmt.Sprintf("%s.%d", base, r.Pick(1, 2, 127, 128, 129, 253, 254, 255, 200))
				case 3:
					ip = fmt.Sprintf("10.%d.%d.%d", r.Intn(3), r.Intn(3), 1+r.Intn(250))
				default:
					ip = fmt.Sprintf("%s.%d", base, 1+r.Intn(254))
				}
				if net.ParseIP(ip) == nil || used[ip] {
					continue // distinct static addresses only (the property's quantifier)
				}
				used[ip] = true
				ips = append(ips, ip)
			}
			op = "static " + strings.Join(ips, ",")
		} else {
			op = "auto"
		}
		out := verifRouterOp(rt, vh.Fields(op))
		if strings.HasPrefix(out, "ok ") {
			for _, ip := range strings.Split(out[3:], ",") {
				used[ip] = true
			}
		}
		o.Op(op, out, verifRouterState(rt))
	}
}

func TestVerifRouterAddr(t *testing.T) {
	vh.RunShards(func(shard int, r *vh.Rng, o *vh.Out, n int) {
		for i := 0; i < n; i++ {
			verifRouterGen(r, o, fmt.Sprintf("%d.%d", shard, i))
		}
	}, func(cs []vh.Case, o *vh.Out) {
		for _, c := range cs {
			o.Case(c.ID, strings.Join(c.Cfg, " "))
			rt, err := NewRouter(&RouterConfig{CIDR: fmt.Sprintf("%s/%s", c.Cfg[0], c.Cfg[1]), LoggerFactory: logging.NewDefaultLoggerFactory()})
			if err != nil {
				panic(err)
			}
			for _, f := range c.Ops {
				o.Op(strings.Join(f, " "), verifRouterOp(rt, f), verifRouterState(rt))
			}
		}
	})
}

// ---- host socket table ----

type verifHost struct {
	n     *Net
	conns []*UDPConn
}

func verifNewHost(ips string) *verifHost {
	var static []string
	for _, ip := range strings.Split(ips, ",") {
		if ip != "127.0.0.1" {
			static = append(static, ip)
		}
	}
	rt, err := NewRouter(&RouterConfig{CIDR: "10.0.0.0/24", LoggerFactory: logging.NewDefaultLoggerFactory()})
	if err != nil {
		panic(err)
	}
	n, err := NewNet(&NetConfig{StaticIPs: static})
	if err != nil {
		panic(err)
	}
	if err := rt.AddNet(n); err != nil {
		panic(err)
	}
	return &verifHost{n: n}
}

func (h *verifHost) state() string {
	m := h.n.udpConns
	var parts []string
	for port, conns := range m.portMap {
		var ips []string
		for _, c := range conns {
			ips = append(ips, c.LocalAddr().(*net.UDPAddr).IP.String()) //nolint:forcetypeassert
		}
		parts = append(parts, fmt.Sprintf("%d=%s", port, strings.Join(ips, ",")))
	}
	sort.Strings(parts)
	return strings.Join(parts, ";")
}

func (h *verifHost) op(f []string, variant int) string {
	switch f[0] {
	case "bind":
		ip := net.ParseIP(f[1]).To4()
		port := vh.Atoi(f[2])
		if port == 0 {
			// make the draw of assignPort equal to the scripted offset: find it by reseeding
			rand.Seed(verifSeedFor(vh.Atoi(f[3]))) //nolint:staticcheck
		}
		var c net.PacketConn
		var err error
		switch variant % 3 {
		case 0:
			var u interface{ LocalAddr() net.Addr }
			uc, e := h.n.ListenUDP("udp", &net.UDPAddr{IP: ip, Port: port})
			err = e
			if e == nil {
				u = uc
				c = uc.(*UDPConn) //nolint:forcetypeassert
			}
			_ = u
		case 1:
			c, err = h.n.ListenPacket("udp", fmt.Sprintf("%s:%d", f[1], port))
		default:
			uc, e := h.n.DialUDP("udp", &net.UDPAddr{IP: ip, Port: port}, &net.UDPAddr{IP: net.ParseIP("9.9.9.9"), Port: 9})
			err = e
			if e == nil {
				c = uc.(*UDPConn) //nolint:forcetypeassert
			}
		}
		switch {
		case err == nil:
			uc := c.(*UDPConn) //nolint:forcetypeassert
			h.conns = append(h.conns, uc)
			return "ok " + uc.LocalAddr().String()
		case errors.Is(err, errCantAssignRequestedAddr):
			return "cantassign"
		case errors.Is(err, errAddressAlreadyInUse):
			return "inuse"
		case errors.Is(err, errPortSpaceExhausted):
			return "exhausted"
		default:
			return "err " + err.Error()
		}
	case "close":
		k := vh.Atoi(f[1])
		if k < len(h.conns) {
			_ = h.conns[k].Close()
		}
		return "-"
	case "probe":
		dst := &net.UDPAddr{IP: net.ParseIP(f[1]).To4(), Port: vh.Atoi(f[2])}
		c := newChunkUDP(&net.UDPAddr{IP: net.ParseIP("9.9.9.9").To4(), Port: 9}, dst)
		c.userData = []byte{42}
		h.n.onInboundChunk(c)
		got := "none"
		for k, uc := range h.conns {
			select {
			case x, ok := <-uc.readCh:
				if ok && x != nil {
					if got != "none" {
						got = "ambiguous"
					} else {
						got = fmt.Sprintf("sock %d", k)
					}
				}
			default:
			}
		}
		return got
	}
	return "bad-op"
}

// verifSeedFor returns a seed after which rand.Intn(1000) yields the wanted offset (table built once).
var verifSeedTable = func() map[int]int64 {
	t := map[int]int64{}
	for s := int64(1); len(t) < 1000; s++ {
		rand.Seed(s) //nolint:staticcheck
		v := rand.Intn(1000)
		if _, ok := t[v]; !ok {
			t[v] = s
		}
	}
	return t
}()

func verifSeedFor(offset int) int64 { return verifSeedTable[offset%1000] }

func verifHostGen(r *vh.Rng, o *vh.Out, id string) {
	ipsets := []string{"127.0.0.1,10.0.0.2", "127.0.0.1,10.0.0.2,10.0.0.3", "127.0.0.1,10.0.0.2,10.0.0.3,10.0.0.4"}
	ips := ipsets[r.Intn(len(ipsets))]
	o.Case(id, ips)
	h := verifNewHost(ips)
	own := strings.Split(ips, ",")
	steps := 10 + r.Intn(40)
	fill := r.Chance(4)
	k := 0
	do := func(op string) {
		k++
		o.Op(op, h.op(vh.Fields(op), k), h.state())
	}
	pickIP := func() string {
		switch c := r.Intn(10); {
		case c < 3:
			return "0.0.0.0"
		case c < 9:
			return own[r.Intn(len(own))]
		default:
			return "10.0.0.99" // not ours
		}
	}
	if fill {
		ip := pickIP()
		lo := 5000 + r.Intn(3)
		for p := lo; p <= 5999-r.Intn(3); p++ {
			do(fmt.Sprintf("bind %s %d 0", ip, p))
		}
	}
	for i := 0; i < steps; i++ {
		switch c := r.Intn(100); {
		case c < 35:
			do(fmt.Sprintf("bind %s %d 0", pickIP(), r.Pick(4000, 4001, 5000, 5001, 5999, 6000)))
		case c < 60:
			do(fmt.Sprintf("bind %s 0 %d", pickIP(), r.Pick(0, 1, 2, 998, 999, r.Intn(1000))))
		case c < 78:
			if len(h.conns) > 0 {
				do(fmt.Sprintf("close %d", r.Intn(len(h.conns))))
			}
		default:
			do(fmt.Sprintf("probe %s %d", own[r.Intn(len(own))], r.Pick(4000, 4001, 5000, 5001, 5999, 6000, 5002)))
		}
	}
}

func TestVerifHostAddr(t *testing.T) {
	vh.RunShardsSerial(func(shard int, r *vh.Rng, o *vh.Out, n int) {
		for i := 0; i < n; i++ {
			verifHostGen(r, o, fmt.Sprintf("%d.%d", shard, i))
		}
	}, func(cs []vh.Case, o *vh.Out) {
		for _, c := range cs {
			o.Case(c.ID, c.Cfg[0])
			h := verifNewHost(c.Cfg[0])
			for k, f := range c.Ops {
				o.Op(strings.Join(f, " "), h.op(f, k+1), h.state())
			}
		}
	})
}
