package vnet

import (
	"net"
	"sync"
	"testing"
	"time"

	"github.com/pion/logging"
)

// C19 workload: networks built in parallel; one started topology with a LAN behind a NAT used by
// concurrent senders and readers while filters are added, a token bucket filter is reconfigured and
// sockets are closed.
func TestVerifRace(t *testing.T) {
	lf := logging.NewDefaultLoggerFactory()
	lf.DefaultLogLevel = logging.LogLevelDisabled
	// independent networks built in parallel
	var wg sync.WaitGroup
	for g := 0; g < 4; g++ {
		wg.Add(1)
		go func() {
			defer wg.Done()
			for i := 0; i < 20; i++ {
				r, err := NewRouter(&RouterConfig{CIDR: "10.9.0.0/24", LoggerFactory: lf})
				if err != nil {
					return
				}
				n, _ := NewNet(&NetConfig{})
				_ = r.AddNet(n)
			}
		}()
	}
	wg.Wait()

	wan, _ := NewRouter(&RouterConfig{CIDR: "1.2.3.0/24", LoggerFactory: lf})
	lan, _ := NewRouter(&RouterConfig{CIDR: "192.168.0.0/24", LoggerFactory: lf, NATType: &NATType{MappingLifeTime: time.Second}})
	a, _ := NewNet(&NetConfig{StaticIPs: []string{"192.168.0.2"}})
	b, _ := NewNet(&NetConfig{StaticIPs: []string{"1.2.3.4"}})
	_ = lan.AddNet(a)
	tbf, _ := NewTokenBucketFilter(b, TBFRate(8*MBit), TBFMaxBurst(4000))
	_ = wan.AddNet(tbf)
	_ = wan.AddRouter(lan)
	_ = wan.Start()
	ca, _ := a.ListenUDP("udp4", &net.UDPAddr{IP: net.ParseIP("192.168.0.2"), Port: 4000})
	cb, _ := b.ListenUDP("udp4", &net.UDPAddr{IP: net.ParseIP("1.2.3.4"), Port: 4000})
	run := func(n int, f func(i int)) {
		wg.Add(1)
		go func() {
			defer wg.Done()
			for i := 0; i < n; i++ {
				f(i)
			}
		}()
	}
	dst := &net.UDPAddr{IP: net.ParseIP("1.2.3.4"), Port: 4000}
	run(300, func(i int) { _, _ = ca.WriteTo(make([]byte, 100), dst) })
	run(300, func(i int) { _, _ = ca.WriteTo(make([]byte, 10), dst) })
	run(200, func(i int) {
		_ = cb.SetReadDeadline(time.Now().Add(time.Millisecond))
		buf := make([]byte, 200)
		if _, from, err := cb.ReadFrom(buf); err == nil {
			_, _ = cb.WriteTo([]byte("r"), from)
		}
	})
	run(100, func(i int) {
		_ = ca.SetReadDeadline(time.Now().Add(time.Millisecond))
		_, _, _ = ca.ReadFrom(make([]byte, 50))
	})
	run(3000, func(i int) { tbf.Set(TBFRate((1+i%8)*MBit), TBFMaxBurst(1000+100*(i%40))) })
	run(20, func(i int) { wan.AddChunkFilter(func(Chunk) bool { return true }) })
	run(20, func(i int) {
		c, err := a.ListenUDP("udp4", &net.UDPAddr{IP: net.ParseIP("192.168.0.2"), Port: 5000 + i})
		if err == nil {
			_, _ = c.WriteTo([]byte("z"), dst)
			_ = c.Close()
		}
	})
	wg.Wait()
	_ = ca.Close()
	_ = cb.Close()
	_ = wan.Stop()
	_ = tbf.Close()
}
