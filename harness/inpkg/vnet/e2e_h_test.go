package vnet

import (
	"errors"
	"fmt"
	"net"
	"strings"
	"sync"
	"sync/atomic"
	"testing"
	"time"

	"github.com/pion/logging"
	"github.com/pion/transport/v3/verifshim/vh"
)

// C01 harness: a generated topology of real routers, NATs and hosts whose router loops are run by
// hand (Router.processChunks is called by the harness; the routers are marked started white-box),
// so that every schedule at queue granularity can be scripted and compared with the model.

type verifE2E struct {
	routers []*Router
	parent  []int
	hosts   []*Net
	hostRtr []int
	socks   [][]*UDPConn
	seen    []string // source addresses observed by reads (reply targets)
	wctr    int
}

func verifIPs(ips []net.IP) string {
	if len(ips) == 0 {
		return "-"
	}
	var s []string
	for _, ip := range ips {
		s = append(s, ip.String())
	}
	return strings.Join(s, ",")
}

func (v *verifE2E) eth0(n *Net) []net.IP {
	ifc, err := n.getInterface("eth0")
	if err != nil {
		return nil
	}
	addrs, _ := ifc.Addrs()
	var ips []net.IP
	for _, a := range addrs {
		if ipn, ok := a.(*net.IPNet); ok {
			ips = append(ips, ipn.IP)
		}
	}
	return ips
}

// setupLines describes the topology as built (addresses as actually assigned).
func (v *verifE2E) setupLines() []string {
	var out []string
	for i, r := range v.routers {
		ones, _ := r.ipv4Net.Mask.Size()
		p := "-"
		natCfg := "-"
		if v.parent[i] >= 0 {
			p = fmt.Sprint(v.parent[i])
			n := r.nat
			if n.natType.Mode == NATModeNAT1To1 {
				natCfg = fmt.Sprintf("one2one %s %s", verifIPs(n.mappedIPs), verifIPs(n.localIPs))
			} else {
				natCfg = fmt.Sprintf("napt %d %d %d %s", n.natType.MappingBehavior, n.natType.FilteringBehavior,
					n.natType.MappingLifeTime.Milliseconds(), verifIPs(n.mappedIPs))
			}
		}
		out = append(out, fmt.Sprintf("router %s %d %s %d %s", r.ipv4Net.IP.String(), ones, p, r.queue.maxSize, natCfg))
	}
	for i, h := range v.hosts {
		rt := "-"
		if v.hostRtr[i] >= 0 {
			rt = fmt.Sprint(v.hostRtr[i])
		}
		out = append(out, fmt.Sprintf("host %s %s", rt, verifIPs(v.eth0(h))))
	}
	return out
}

func (v *verifE2E) state() string {
	var q, in []string
	for _, r := range v.routers {
		q = append(q, fmt.Sprint(len(r.queue.chunks)))
	}
	for h := range v.hosts {
		var s []string
		for _, c := range v.socks[h] {
			s = append(s, fmt.Sprint(len(c.readCh)))
		}
		in = append(in, strings.Join(s, ","))
	}
	return "q=" + strings.Join(q, ",") + " in=" + strings.Join(in, ";")
}

func (v *verifE2E) shift(d time.Duration) {
	for _, r := range v.routers {
		if r.nat == nil {
			continue
		}
		seen := map[*mapping]bool{}
		for _, m := range r.nat.outboundMap {
			if !seen[m] {
				seen[m] = true
				m.expires = m.expires.Add(-d)
			}
		}
		for _, m := range r.nat.inboundMap {
			if !seen[m] {
				seen[m] = true
				m.expires = m.expires.Add(-d)
			}
		}
	}
}

func (v *verifE2E) read(h, s int) string {
	if h >= len(v.socks) || s >= len(v.socks[h]) {
		return "bad"
	}
	c := v.socks[h][s]
	c.mu.Lock()
	closed := c.closed
	c.mu.Unlock()
	if len(c.readCh) == 0 && !closed {
		return "empty"
	}
	if !closed {
		// a connected socket may discard everything that is queued and then block
		_ = c.SetReadDeadline(time.Now().Add(40 * time.Millisecond))
		defer func() { _ = c.SetReadDeadline(time.Time{}) }()
	}
	buf := make([]byte, 2048)
	n, addr, err := c.ReadFrom(buf)
	if err != nil {
		var ne net.Error
		if errors.As(err, &ne) && ne.Timeout() {
			return "empty"
		}
		if errors.Is(err, errUseClosedNetworkConn) {
			return "closed"
		}
		return "err:" + strings.ReplaceAll(err.Error(), " ", "_")
	}
	v.seen = append(v.seen, addr.String())
	return fmt.Sprintf("pkt %s %s", addr.String(), vh.Hex(buf[:n]))
}

func (v *verifE2E) op(f []string) (line, out string) {
	line = strings.Join(f, " ")
	defer func() {
		if r := recover(); r != nil {
			out = fmt.Sprintf("panic:%v", r)
		}
	}()
	switch f[0] {
	case "start":
		for _, r := range v.routers {
			r.mutex.Lock()
			r.stopFunc = func() {}
			r.mutex.Unlock()
		}
		return line, "ok"
	case "stop":
		for _, r := range v.routers {
			r.mutex.Lock()
			r.stopFunc = nil
			r.mutex.Unlock()
		}
		return line, "ok"
	case "bind":
		h := vh.Atoi(f[1])
		loc := &net.UDPAddr{IP: net.ParseIP(f[2]).To4(), Port: vh.Atoi(f[3])}
		var c interface{}
		var err error
		if len(f) > 4 {
			c, err = v.hosts[h].DialUDP("udp4", loc, verifUDPAddr(f[4]))
		} else {
			c, err = v.hosts[h].ListenUDP("udp4", loc)
		}
		if err != nil {
			switch {
			case errors.Is(err, errCantAssignRequestedAddr):
				return line, "cantassign"
			case errors.Is(err, errAddressAlreadyInUse):
				return line, "inuse"
			}
			return line, "err:" + strings.ReplaceAll(err.Error(), " ", "_")
		}
		uc, _ := c.(*UDPConn)
		v.socks[h] = append(v.socks[h], uc)
		return line, fmt.Sprintf("ok %d", len(v.socks[h])-1)
	case "w":
		h, s := vh.Atoi(f[1]), vh.Atoi(f[2])
		if h >= len(v.socks) || s >= len(v.socks[h]) {
			return line, "bad"
		}
		payload := vh.UnHex(f[4])
		want := len(payload)
		_, err := v.socks[h][s].WriteTo(payload, verifUDPAddr(f[3]))
		// the caller may reuse its buffer at once
		for i := range payload {
			payload[i] ^= 0xA5
		}
		_ = want
		switch {
		case err == nil:
			return line, "ok"
		case errors.Is(err, errLocAddr):
			return line, "nosrc"
		case errors.Is(err, errNoRouterLinked):
			return line, "norouter"
		}
		return line, "err:" + strings.ReplaceAll(err.Error(), " ", "_")
	case "route":
		r := vh.Atoi(f[1])
		if r < len(v.routers) {
			if _, err := v.routers[r].processChunks(); err != nil {
				// the router's goroutine would end here
				return line, "router-loop-exits:" + strings.ReplaceAll(err.Error(), " ", "_")
			}
		}
		return line, "-"
	case "read":
		res := v.read(vh.Atoi(f[1]), vh.Atoi(f[2]))
		return fmt.Sprintf("read %s %s # %s", f[1], f[2], res), res
	case "close":
		h, s := vh.Atoi(f[1]), vh.Atoi(f[2])
		if h < len(v.socks) && s < len(v.socks[h]) {
			_ = v.socks[h][s].Close()
		}
		return line, "-"
	case "natctr":
		if r := vh.Atoi(f[1]); r < len(v.routers) && v.routers[r].nat != nil {
			v.routers[r].nat.udpPortCounter = vh.Atoi(f[2])
		}
		return line, "-"
	case "adv":
		v.shift(time.Duration(vh.Atoi(f[1])) * time.Millisecond)
		return line, "-"
	case "end":
		return line, "end"
	}
	return line, "bad-op"
}

// build creates a topology from setup lines of the form the harness itself emits (replay) or at random.
func verifBuildRandom(rg *vh.Rng) *verifE2E {
	lf := logging.NewDefaultLoggerFactory()
	lf.DefaultLogLevel = logging.LogLevelDisabled
	v := &verifE2E{}
	root, _ := NewRouter(&RouterConfig{CIDR: "1.2.3.0/24", LoggerFactory: lf, QueueSize: rg.Pick(0, 0, 0, 0, 0, 0, 0, 3)})
	v.routers = append(v.routers, root)
	v.parent = append(v.parent, -1)
	depth := []int{0}
	nLan := rg.Intn(4)
	for k := 0; k < nLan; k++ {
		p := rg.Intn(len(v.routers))
		if depth[p] >= 3 {
			p = 0
		}
		cidr := fmt.Sprintf("10.%d.0.0/24", k+1)
		cfg := &RouterConfig{CIDR: cidr, LoggerFactory: lf, QueueSize: rg.Pick(0, 0, 0, 0, 0, 0, 0, 0, 2)}
		pnet := v.routers[p].ipv4Net.IP.To4()
		wan := func(last int) string { return fmt.Sprintf("%d.%d.%d.%d", pnet[0], pnet[1], pnet[2], last) }
		switch rg.Intn(5) {
		case 0: // 1:1 NAT with one or two pairs
			n := 1 + rg.Intn(2)
			for j := 0; j < n; j++ {
				cfg.StaticIPs = append(cfg.StaticIPs, fmt.Sprintf("%s/10.%d.0.%d", wan(100+10*k+j), k+1, 2+j))
			}
			cfg.NATType = &NATType{Mode: NATModeNAT1To1}
		default:
			if rg.Chance(50) {
				cfg.StaticIPs = []string{wan(100 + 10*k)}
				if rg.Chance(30) {
					cfg.StaticIPs = append(cfg.StaticIPs, wan(101+10*k))
				}
			}
			if rg.Chance(85) {
				cfg.NATType = &NATType{
					MappingBehavior:   EndpointDependencyType(rg.Intn(3)),
					FilteringBehavior: EndpointDependencyType(rg.Intn(3)),
					MappingLifeTime:   time.Duration(rg.Pick(0, 0, 10000, 50000)) * time.Millisecond,
				}
			}
		}
		r, err := NewRouter(cfg)
		if err != nil {
			continue
		}
		if err := v.routers[p].AddRouter(r); err != nil {
			continue
		}
		v.routers = append(v.routers, r)
		v.parent = append(v.parent, p)
		depth = append(depth, depth[p]+1)
	}
	nHosts := 2 + rg.Intn(4)
	usedIP := map[string]bool{}
	for k := 0; k < nHosts; k++ {
		rt := rg.Intn(len(v.routers))
		cfg := &NetConfig{}
		pnet := v.routers[rt].ipv4Net.IP.To4()
		if len(v.routers[rt].staticLocalIPs) > 0 && rg.Chance(60) {
			// a host that holds the local address of a 1:1 pair
			for _, loc := range v.routers[rt].staticLocalIPs {
				if !usedIP[loc.String()] {
					usedIP[loc.String()] = true
					cfg.StaticIPs = []string{loc.String()}
					break
				}
			}
		} else if rg.Chance(60) {
			cfg.StaticIPs = []string{fmt.Sprintf("%d.%d.%d.%d", pnet[0], pnet[1], pnet[2], 20+k)}
			if rg.Chance(25) {
				cfg.StaticIPs = append(cfg.StaticIPs, fmt.Sprintf("%d.%d.%d.%d", pnet[0], pnet[1], pnet[2], 40+k))
			}
		}
		h, _ := NewNet(cfg)
		if rg.Chance(4) {
			// a host that is not attached to any router
			v.hosts = append(v.hosts, h)
			v.hostRtr = append(v.hostRtr, -1)
			continue
		}
		if err := v.routers[rt].AddNet(h); err != nil {
			continue
		}
		v.hosts = append(v.hosts, h)
		v.hostRtr = append(v.hostRtr, rt)
	}
	v.socks = make([][]*UDPConn, len(v.hosts))
	return v
}

// verifBuildFromLines rebuilds a topology from `router`/`host` lines (replay, corpus).
func verifBuildFromLines(lines [][]string) *verifE2E {
	lf := logging.NewDefaultLoggerFactory()
	lf.DefaultLogLevel = logging.LogLevelDisabled
	v := &verifE2E{}
	for _, f := range lines {
		switch f[0] {
		case "router":
			cfg := &RouterConfig{CIDR: f[1] + "/" + f[2], LoggerFactory: lf, QueueSize: vh.Atoi(f[4])}
			p := -1
			if f[3] != "-" {
				p = vh.Atoi(f[3])
				switch f[5] {
				case "one2one":
					m, l := strings.Split(f[6], ","), strings.Split(f[7], ",")
					for i := range m {
						cfg.StaticIPs = append(cfg.StaticIPs, m[i]+"/"+l[i])
					}
					cfg.NATType = &NATType{Mode: NATModeNAT1To1}
				case "napt":
					cfg.StaticIPs = strings.Split(f[9], ",")
					cfg.NATType = &NATType{
						MappingBehavior:   EndpointDependencyType(vh.Atoi(f[6])),
						FilteringBehavior: EndpointDependencyType(vh.Atoi(f[7])),
						MappingLifeTime:   time.Duration(vh.Atoi(f[8])) * time.Millisecond,
					}
				}
			}
			r, err := NewRouter(cfg)
			if err != nil {
				panic(err)
			}
			if p >= 0 {
				if err := v.routers[p].AddRouter(r); err != nil {
					panic(err)
				}
			}
			v.routers = append(v.routers, r)
			v.parent = append(v.parent, p)
		case "host":
			cfg := &NetConfig{}
			if f[2] != "-" {
				cfg.StaticIPs = strings.Split(f[2], ",")
			}
			h, _ := NewNet(cfg)
			rt := -1
			if f[1] != "-" {
				rt = vh.Atoi(f[1])
				if err := v.routers[rt].AddNet(h); err != nil {
					panic(err)
				}
			}
			v.hosts = append(v.hosts, h)
			v.hostRtr = append(v.hostRtr, rt)
		}
	}
	v.socks = make([][]*UDPConn, len(v.hosts))
	return v
}

func (v *verifE2E) payload(rg *vh.Rng) []byte {
	size := rg.Pick(0, 1, 3, 8, 8, 8, 30, 30, 200)
	if rg.Chance(3) {
		size = 1500
	}
	b := rg.Bytes(size)
	v.wctr++
	if size >= 4 {
		b[0], b[1], b[2], b[3] = byte(v.wctr>>8), byte(v.wctr), 0xC0, 0x01
	}
	return b
}

// dest picks a destination for a write from host h.
func (v *verifE2E) dest(rg *vh.Rng, h int) string {
	type sk struct{ h, s int }
	var all []sk
	for hh := range v.socks {
		for s := range v.socks[hh] {
			all = append(all, sk{hh, s})
		}
	}
	k := rg.Intn(100)
	switch {
	case k < 38 && len(all) > 0:
		// the address another socket is bound to (its host's address if it is a wildcard)
		t := all[rg.Intn(len(all))]
		la, _ := v.socks[t.h][t.s].LocalAddr().(*net.UDPAddr)
		ip := la.IP
		if ip.IsUnspecified() {
			ips := v.eth0(v.hosts[t.h])
			if len(ips) == 0 {
				return "1.2.3.250:9"
			}
			ip = ips[rg.Intn(len(ips))]
		}
		return fmt.Sprintf("%s:%d", ip.String(), la.Port)
	case k < 72 && len(v.seen) > 0:
		// reply to a source address some socket has seen (NAT-translated or not)
		return v.seen[rg.Intn(len(v.seen))]
	case k < 80:
		// a router's WAN-side address: own NAT, 1:1 pairs, with a socket's port
		var cands []string
		for _, r := range v.routers {
			if r.nat != nil {
				for _, ip := range r.nat.mappedIPs {
					cands = append(cands, ip.String())
				}
			}
		}
		if len(cands) > 0 {
			port := 4000 + rg.Intn(3)
			if rg.Chance(40) {
				port = 0xC000 + rg.Intn(3)
			}
			return fmt.Sprintf("%s:%d", cands[rg.Intn(len(cands))], port)
		}
		return "1.2.3.77:4000"
	case k < 86:
		return fmt.Sprintf("127.0.0.1:%d", 4000+rg.Intn(3))
	case k < 90:
		return "8.8.8.8:53" // unroutable
	case k < 95:
		return fmt.Sprintf("1.2.3.%d:%d", 200+rg.Intn(3), 4000+rg.Intn(3)) // nobody holds it
	default:
		if len(all) > 0 {
			t := all[rg.Intn(len(all))]
			ips := v.eth0(v.hosts[t.h])
			if len(ips) > 0 {
				return fmt.Sprintf("%s:%d", ips[0].String(), 4990) // unbound port
			}
		}
		return "1.2.3.4:1"
	}
}

func verifE2ECase(o *vh.Out, id string, rg *vh.Rng, given [][]string) {
	o.Case(id, "")
	var v *verifE2E
	emit := func(f []string) string {
		line, out := v.op(f)
		o.Op(line, out, v.state())
		return out
	}
	if given != nil {
		var setup [][]string
		rest := given
		for len(rest) > 0 && (rest[0][0] == "router" || rest[0][0] == "host") {
			setup = append(setup, rest[0])
			rest = rest[1:]
		}
		v = verifBuildFromLines(setup)
		for _, l := range v.setupLines() {
			o.Op(l, "ok", "-")
		}
		for _, f := range rest {
			if f[0] == "read" && len(f) > 3 {
				f = f[:3]
			}
			emit(f)
		}
		return
	}
	v = verifBuildRandom(rg)
	for _, l := range v.setupLines() {
		o.Op(l, "ok", "-")
	}
	if !rg.Chance(3) {
		emit([]string{"start"})
	}
	// sockets
	for h := range v.hosts {
		n := 1 + rg.Intn(2)
		for k := 0; k < n; k++ {
			ips := v.eth0(v.hosts[h])
			ip := "0.0.0.0"
			if len(ips) > 0 && rg.Chance(60) {
				ip = ips[rg.Intn(len(ips))].String()
			}
			f := []string{"bind", fmt.Sprint(h), ip, fmt.Sprint(4000 + rg.Intn(3))}
			if rg.Chance(12) {
				f = append(f, v.dest(rg, h))
			}
			emit(f)
		}
	}
	nOps := 20 + rg.Intn(60)
	if vh.Thorough() && rg.Chance(10) {
		nOps = 300
	}
	stopped := 0
	for i := 0; i < nOps; i++ {
		k := rg.Intn(100)
		switch {
		case k < 40:
			h := rg.Intn(len(v.hosts))
			if len(v.socks[h]) == 0 {
				continue
			}
			s := rg.Intn(len(v.socks[h]))
			dst := v.dest(rg, h)
			burst := 1
			if rg.Chance(25) {
				burst = 2 + rg.Intn(4)
			}
			for b := 0; b < burst; b++ {
				emit([]string{"w", fmt.Sprint(h), fmt.Sprint(s), dst, vh.Hex(v.payload(rg))})
			}
		case k < 70:
			// prefer a router that has something queued
			r := rg.Intn(len(v.routers))
			for t := 0; t < 3 && len(v.routers[r].queue.chunks) == 0; t++ {
				r = rg.Intn(len(v.routers))
			}
			emit([]string{"route", fmt.Sprint(r)})
		case k < 88:
			h := rg.Intn(len(v.hosts))
			if len(v.socks[h]) == 0 {
				continue
			}
			emit([]string{"read", fmt.Sprint(h), fmt.Sprint(rg.Intn(len(v.socks[h])))})
		case k < 92:
			// the NATs read the real clock: steps are multiples of 20 s and lifetimes odd multiples of 10 s,
			// so no sum of steps comes closer than 10 s to a lifetime, however slowly the machine runs
			emit([]string{"adv", fmt.Sprint(rg.Pick(20000, 20000, 40000, 100000))})
		case k < 95:
			h := rg.Intn(len(v.hosts))
			if len(v.socks[h]) == 0 {
				continue
			}
			emit([]string{"close", fmt.Sprint(h), fmt.Sprint(rg.Intn(len(v.socks[h])))})
		case k < 98:
			h := rg.Intn(len(v.hosts))
			ips := v.eth0(v.hosts[h])
			ip := "0.0.0.0"
			if len(ips) > 0 && rg.Chance(60) {
				ip = ips[rg.Intn(len(ips))].String()
			}
			switch rg.Intn(10) {
			case 0:
				ip = "127.0.0.1"
			case 1:
				ip = "9.9.9.9"
			}
			emit([]string{"bind", fmt.Sprint(h), ip, fmt.Sprint(4000 + rg.Intn(3))})
		default:
			if rg.Chance(25) {
				emit([]string{"stop"})
				stopped = 1 + rg.Intn(4)
			} else {
				emit([]string{"start"})
			}
		}
		if stopped > 0 {
			if stopped--; stopped == 0 {
				emit([]string{"start"})
			}
		}
	}
	// flush: run every router until all queues are empty, then drain every socket
	for round := 0; round < 12; round++ {
		busy := false
		for r := range v.routers {
			if len(v.routers[r].queue.chunks) > 0 {
				busy = true
				emit([]string{"route", fmt.Sprint(r)})
			}
		}
		if !busy {
			break
		}
	}
	for h := range v.socks {
		for s := range v.socks[h] {
			for k := 0; k < 1100; k++ {
				if out := emit([]string{"read", fmt.Sprint(h), fmt.Sprint(s)}); !strings.HasPrefix(out, "pkt") {
					break
				}
			}
		}
	}
	emit([]string{"end"})
}

// verifE2EConcurrent is the part of C01 about real goroutines: started routers (their own loops), a WAN
// with two LANs behind NATs, concurrent senders on every host, every receiver draining concurrently.
// What arrives is judged on the spot (model-independent): each datagram at most once, intact, at the
// socket it was addressed to, per flow in the order written, and — nothing here may drop (unbounded
// queues, fewer than 1024 datagrams per socket, destinations bound, NAT mappings opened first) — all of it.
func verifE2EConcurrent(seed uint64) string {
	rg := vh.NewRng(seed)
	lf := logging.NewDefaultLoggerFactory()
	lf.DefaultLogLevel = logging.LogLevelDisabled
	wan, _ := NewRouter(&RouterConfig{CIDR: "1.2.3.0/24", LoggerFactory: lf})
	var hosts []*Net
	var addrs []*net.UDPAddr
	nLan := 1 + rg.Intn(2)
	for k := 0; k < nLan; k++ {
		lan, _ := NewRouter(&RouterConfig{CIDR: fmt.Sprintf("10.%d.0.0/24", k+1), LoggerFactory: lf, StaticIPs: []string{fmt.Sprintf("1.2.3.%d", 100+k)},
			NATType: &NATType{MappingBehavior: EndpointIndependent, FilteringBehavior: EndpointIndependent}})
		for j := 0; j < 2; j++ {
			h, _ := NewNet(&NetConfig{StaticIPs: []string{fmt.Sprintf("10.%d.0.%d", k+1, 20+j)}})
			_ = lan.AddNet(h)
			hosts = append(hosts, h)
			addrs = append(addrs, &net.UDPAddr{IP: net.ParseIP(fmt.Sprintf("10.%d.0.%d", k+1, 20+j)).To4(), Port: 4000})
		}
		_ = wan.AddRouter(lan)
	}
	for j := 0; j < 2; j++ {
		h, _ := NewNet(&NetConfig{StaticIPs: []string{fmt.Sprintf("1.2.3.%d", 20+j)}})
		_ = wan.AddNet(h)
		hosts = append(hosts, h)
		addrs = append(addrs, &net.UDPAddr{IP: net.ParseIP(fmt.Sprintf("1.2.3.%d", 20+j)).To4(), Port: 4000})
	}
	_ = wan.Start()
	defer func() { _ = wan.Stop() }()
	conns := make([]*UDPConn, len(hosts))
	for i, h := range hosts {
		c, err := h.ListenUDP("udp4", addrs[i])
		if err != nil {
			return "setup-failed"
		}
		conns[i], _ = c.(*UDPConn)
	}
	nW := len(hosts) - 2 // WAN hosts are the last two
	wanIdx := []int{nW, nW + 1}
	// plan: every LAN host sends to both WAN hosts (through its NAT); WAN hosts send to each other; WAN hosts
	// reply to what they receive from the LAN (through the mapping)
	const perFlow = 120
	type rec struct {
		payloads [][]byte
		from     []string
	}
	got := make([]rec, len(hosts))
	var mu sync.Mutex
	var wg, rwg sync.WaitGroup
	stop := make(chan struct{})
	var replies int64
	for i := range conns {
		i := i
		rwg.Add(1)
		go func() {
			defer rwg.Done()
			buf := make([]byte, 2048)
			for {
				_ = conns[i].SetReadDeadline(time.Now().Add(20 * time.Millisecond))
				n, from, err := conns[i].ReadFrom(buf)
				if err != nil {
					select {
					case <-stop:
						return
					default:
						continue
					}
				}
				p := append([]byte(nil), buf[:n]...)
				mu.Lock()
				got[i].payloads = append(got[i].payloads, p)
				got[i].from = append(got[i].from, from.String())
				mu.Unlock()
				// a WAN host answers the first datagrams of LAN flows: the reply must come back through the NAT
				if i >= nW && len(p) >= 6 && p[0] == 'D' && int(p[1]) < nW && int(p[4])|int(p[5])<<8 < 20 {
					r := append([]byte{'R'}, p[1:]...)
					_, _ = conns[i].WriteTo(r, from)
					atomic.AddInt64(&replies, 1)
				}
			}
		}()
	}
	send := func(src, dst int) {
		defer wg.Done()
		for k := 0; k < perFlow; k++ {
			size := 6 + (k*7+src)%40
			p := make([]byte, size)
			p[0], p[1], p[2], p[3], p[4], p[5] = 'D', byte(src), byte(dst), 0, byte(k), byte(k>>8)
			for x := 6; x < size; x++ {
				p[x] = byte(src*31 + dst*17 + k + x)
			}
			_, _ = conns[src].WriteTo(p, addrs[dst])
			for x := range p { // the caller may reuse its buffer at once
				p[x] = 0xEE
			}
			if k%16 == 0 {
				time.Sleep(time.Duration(rg.Intn(300)) * time.Microsecond)
			}
		}
	}
	for src := 0; src < nW; src++ {
		for _, dst := range wanIdx {
			wg.Add(1)
			go send(src, dst)
		}
	}
	wg.Add(2)
	go send(wanIdx[0], wanIdx[1])
	go send(wanIdx[1], wanIdx[0])
	wg.Wait()
	// quiescence: nothing new for a while
	last := -1
	for tries := 0; tries < 200; tries++ {
		time.Sleep(10 * time.Millisecond)
		mu.Lock()
		tot := 0
		for i := range got {
			tot += len(got[i].payloads)
		}
		mu.Unlock()
		if tot == last && tries > 5 {
			break
		}
		last = tot
	}
	close(stop)
	rwg.Wait()
	dup, corrupt, reorder, misdelivered, lost, badsrc := 0, 0, 0, 0, 0, 0
	expectD := map[[2]int]bool{}
	for src := 0; src < nW; src++ {
		for _, dst := range wanIdx {
			expectD[[2]int{src, dst}] = true
		}
	}
	expectD[[2]int{wanIdx[0], wanIdx[1]}] = true
	expectD[[2]int{wanIdx[1], wanIdx[0]}] = true
	seen := map[string]bool{}
	lastK := map[[3]int]int{}
	countD := map[[2]int]int{}
	nReplies := 0
	for i := range got {
		for j, p := range got[i].payloads {
			if len(p) < 6 {
				corrupt++
				continue
			}
			src, dst, k := int(p[1]), int(p[2]), int(p[4])|int(p[5])<<8
			key := fmt.Sprintf("%c/%d/%d/%d", p[0], src, dst, k)
			if seen[key] {
				dup++
			}
			seen[key] = true
			kind := 0
			if p[0] == 'R' {
				kind = 1
				nReplies++
				if i != src { // a reply goes back to the LAN host that sent the original
					misdelivered++
				}
			} else {
				if i != dst {
					misdelivered++
				}
				countD[[2]int{src, dst}]++
				size := 6 + (k*7+src)%40
				if len(p) != size {
					corrupt++
				} else {
					for x := 6; x < size; x++ {
						if p[x] != byte(src*31+dst*17+k+x) {
							corrupt++
							break
						}
					}
				}
				// the source shown is the sender's own address, or its NAT's WAN address for LAN senders
				from := got[i].from[j]
				if src < nW {
					if !strings.HasPrefix(from, fmt.Sprintf("1.2.3.%d:", 100+src/2)) {
						badsrc++
					}
				} else if from != addrs[src].String() {
					badsrc++
				}
			}
			fk := [3]int{kind, src, dst}
			if prev, ok := lastK[fk]; ok && k < prev {
				reorder++
			}
			lastK[fk] = k
		}
	}
	for f := range expectD {
		if countD[f] != perFlow {
			lost += perFlow - countD[f]
		}
	}
	if int64(nReplies) != atomic.LoadInt64(&replies) {
		lost += int(atomic.LoadInt64(&replies)) - nReplies
	}
	return fmt.Sprintf("dup=%d corrupt=%d reorder=%d misdelivered=%d badsrc=%d lost=%d", dup, corrupt, reorder, misdelivered, badsrc, lost)
}

func TestVerifE2E(t *testing.T) {
	vh.RunShards(func(shard int, rg *vh.Rng, o *vh.Out, n int) {
		for i := 0; i < n; i++ {
			verifE2ECase(o, fmt.Sprintf("%d.%d", shard, i), rg, nil)
		}
		// the concurrent part: real router goroutines, concurrent senders and receivers
		rounds := 1
		if vh.Thorough() {
			rounds = 6
		}
		for i := 0; i < rounds; i++ {
			o.Case(fmt.Sprintf("%d.conc%d", shard, i), "")
			o.Op("conc # "+verifE2EConcurrent(vh.Seed()*1000+uint64(shard*10+i)), "conc", "-")
		}
	}, func(cs []vh.Case, o *vh.Out) {
		for _, c := range cs {
			if len(c.Ops) > 0 && c.Ops[0][0] == "conc" {
				o.Case(c.ID, "")
				o.Op("conc # "+verifE2EConcurrent(vh.Seed()), "conc", "-")
				continue
			}
			verifE2ECase(o, c.ID, nil, c.Ops)
		}
	})
}
