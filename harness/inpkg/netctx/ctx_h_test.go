package netctx

import (
	"context"
	"testing"

	"github.com/pion/transport/v3/verifshim/ctxh"
)

// C17 harness: the stream wrapper over a scripted connection, under the controlled scheduler.
func TestVerifCtxConn(t *testing.T) {
	ctxh.Main("conn", func(f *ctxh.Fake) ctxh.Wrapped {
		c := NewConn(f)
		return ctxh.Wrapped{Read: c.ReadContext, Write: c.WriteContext}
	})
}

// the packet wrapper
func TestVerifCtxPacket(t *testing.T) {
	ctxh.Main("packet", func(f *ctxh.Fake) ctxh.Wrapped {
		p := NewPacketConn(f)
		return ctxh.Wrapped{
			Read: func(ctx context.Context, b []byte) (int, error) {
				n, _, err := p.ReadFromContext(ctx, b)
				return n, err
			},
			Write: func(ctx context.Context, b []byte) (int, error) {
				return p.WriteToContext(ctx, b, f.LocalAddr())
			},
		}
	})
}
