package packetio

import "fmt"

func init() {
	verifRingState = func(b *Buffer) string {
		b.mutex.Lock()
		defer b.mutex.Unlock()
		return fmt.Sprintf("%d %d %d %d", b.head, b.tail, len(b.data), b.count)
	}
	verifRingGeom = func(b *Buffer) (int, int, int) {
		b.mutex.Lock()
		defer b.mutex.Unlock()
		return b.head, b.tail, len(b.data)
	}
}
