package packetio

import (
	"errors"
	"io"
	"testing"

	"github.com/pion/transport/v3/verifshim/rdl"
)

type verifRDLBuffer struct{ *Buffer }

func (b verifRDLBuffer) Deliver(p []byte)     { _, _ = b.Write(p) }
func (b verifRDLBuffer) Poke()                {}
func (b verifRDLBuffer) Close()               { _ = b.Buffer.Close() }
func (b verifRDLBuffer) CloseKeepsData() bool { return true }

func (b verifRDLBuffer) Classify(err error) string {
	var ne interface{ Timeout() bool }
	switch {
	case errors.As(err, &ne) && ne.Timeout():
		return "timeout"
	case errors.Is(err, io.EOF):
		return "closed"
	}
	return "err:" + err.Error()
}

func TestVerifRDL(t *testing.T) {
	rdl.Main("buffer", func() rdl.Conn { return verifRDLBuffer{NewBuffer()} })
}
