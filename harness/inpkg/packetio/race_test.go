package packetio

import (
	"sync"
	"testing"
	"time"
)

// C19 workload: one Buffer used from several goroutines through every concurrent-safe method.
func TestVerifRace(t *testing.T) {
	for round := 0; round < 20; round++ {
		b := NewBuffer()
		var wg sync.WaitGroup
		run := func(f func(i int)) {
			wg.Add(1)
			go func() {
				defer wg.Done()
				for i := 0; i < 200; i++ {
					f(i)
				}
			}()
		}
		run(func(i int) { _, _ = b.Write(make([]byte, 1+i%50)) })
		run(func(i int) { _, _ = b.Write(make([]byte, 1+i%7)) })
		run(func(i int) {
			_ = b.SetReadDeadline(time.Now().Add(time.Millisecond))
			_, _ = b.Read(make([]byte, 64))
		})
		run(func(i int) { _ = b.Count(); _ = b.Size() })
		run(func(i int) { b.SetLimitCount(i % 9); b.SetLimitSize(100 + i) })
		run(func(i int) {
			if i == 150 {
				_ = b.Close()
			}
		})
		wg.Wait()
		_ = b.Close()
	}
}
