package packetio

import (
	"errors"
	"fmt"
	"io"
	"strconv"
	"strings"
	"testing"
	"time"

	"github.com/pion/transport/v3/verifshim/vh"
)

// white-box hooks (set by ring_wb_test.go): state projection and aiming information
var (
	verifRingState func(b *Buffer) string
	verifRingGeom  func(b *Buffer) (head, tail, length int)
)

func verifFnv(bs []byte) uint64 {
	h := uint64(14695981039346656037)
	for _, c := range bs {
		h = (h ^ uint64(c)) * 1099511628211
	}
	return h
}

func verifBytesStr(bs []byte) string {
	return strconv.Itoa(len(bs)) + ":" + strconv.FormatUint(verifFnv(bs), 16)
}

func verifGenBytes(n, seed int) []byte {
	b := make([]byte, n)
	for i := range b {
		b[i] = byte(seed + i*131 + (i/256)*7)
	}
	return b
}

func verifOcc(b *Buffer) string {
	return fmt.Sprintf(" c=%d s=%d", b.Count(), b.Size())
}

func verifRingSt(b *Buffer) string {
	if verifRingState == nil {
		return "-"
	}
	return verifRingState(b)
}

// verifRingOp applies one textual operation to the buffer.
func verifRingOp(b *Buffer, closed *bool, f []string) (out string) {
	defer func() {
		if r := recover(); r != nil {
			out = "panic"
		}
	}()
	switch f[0] {
	case "w", "wg":
		var p []byte
		if f[0] == "w" {
			p = vh.UnHex(f[1])
		} else {
			p = verifGenBytes(vh.Atoi(f[1]), vh.Atoi(f[2]))
		}
		n, err := b.Write(p)
		// the caller may overwrite its slice as soon as Write returns
		for i := range p {
			p[i] ^= 0xff
		}
		switch {
		case err == nil:
			out = "ok " + strconv.Itoa(n)
		case errors.Is(err, errPacketTooBig):
			out = "toobig"
		case errors.Is(err, io.ErrClosedPipe):
			out = "closed"
		case errors.Is(err, ErrFull):
			out = "full"
		default:
			out = "err:" + err.Error()
		}
	case "r":
		dst := make([]byte, vh.Atoi(f[1]))
		if b.Count() == 0 && !*closed {
			return "block" + verifOcc(b) // a Read would block: not issued
		}
		// a Read that finds nothing although Count() > 0 must not hang the harness
		_ = b.SetReadDeadline(time.Now().Add(300 * time.Millisecond))
		n, err := b.Read(dst)
		_ = b.SetReadDeadline(time.Time{})
		var ne interface{ Timeout() bool }
		switch {
		case errors.As(err, &ne) && ne.Timeout():
			out = "stuck"
		case err == nil:
			out = "ok " + verifBytesStr(dst[:n])
		case errors.Is(err, io.ErrShortBuffer):
			out = "short " + verifBytesStr(dst[:n])
		case errors.Is(err, io.EOF):
			out = "eof"
		default:
			out = "err:" + err.Error()
		}
	case "close":
		_ = b.Close()
		*closed = true
		out = "-"
	case "lc":
		b.SetLimitCount(vh.Atoi(f[1]))
		out = "-"
	case "ls":
		b.SetLimitSize(vh.Atoi(f[1]))
		out = "-"
	default:
		out = "bad-op"
	}
	return out + verifOcc(b)
}

type verifRingGen struct {
	r      *vh.Rng
	b      *Buffer
	o      *vh.Out
	count  int
	closed bool
	dead   bool
	nops   int
}

func (g *verifRingGen) do(op string) {
	g.nops++
	if g.nops > 3000 {
		g.dead = true // a generator loop that waits for the buffer to fill or drain must end on a broken buffer too
	}
	if g.dead {
		return // the buffer panicked or hung earlier in this case: the case ends there
	}
	f := splitFields(op)
	out := verifRingOp(g.b, &g.closed, f)
	if strings.HasPrefix(out, "panic") {
		// the buffer panicked while holding its mutex: it must not be touched again
		g.dead = true
		g.o.Op(op, out, "-")
		return
	}
	g.o.Op(op, out, verifRingSt(g.b))
	if strings.HasPrefix(out, "stuck") {
		g.dead = true
	}
}

func splitFields(s string) []string {
	var f []string
	cur := ""
	for _, c := range s {
		if c == ' ' {
			if cur != "" {
				f = append(f, cur)
				cur = ""
			}
			continue
		}
		cur += string(c)
	}
	if cur != "" {
		f = append(f, cur)
	}
	return f
}

func (g *verifRingGen) write(n int) {
	if n < 0 {
		n = 0
	}
	if n > 70000 {
		n = 65536 + n%4464 // everything from 65536 up is refused alike; keep the payloads small
	}
	if n <= 24 {
		g.do("w " + vh.Hex(g.r.Bytes(n)))
	} else {
		g.do(fmt.Sprintf("wg %d %d", n, g.r.Intn(256)))
	}
}

// room to the end of the ring from the tail (white box), or a guess
func (g *verifRingGen) toEnd() int {
	if g.dead {
		return 0
	}
	if verifRingGeom == nil {
		return 2048 - g.b.Size()%2048
	}
	_, t, l := verifRingGeom(g.b)
	if l == 0 {
		return 2048
	}
	return l - t
}

// cnt and sz never touch a buffer that panicked (its mutex is still held)
func (g *verifRingGen) cnt() int {
	if g.dead {
		return 0
	}
	return g.b.Count()
}

func (g *verifRingGen) sz() int {
	if g.dead {
		return 0
	}
	return g.b.Size()
}

func (g *verifRingGen) readSome(k int) {
	for i := 0; i < k && g.cnt() > 0; i++ {
		switch g.r.Intn(8) {
		case 0:
			g.do("r 0")
		case 1:
			g.do(fmt.Sprintf("r %d", g.r.Intn(40)))
		default:
			g.do(fmt.Sprintf("r %d", g.r.Pick(70000, 65535, 1500, 3000)))
		}
	}
}

func verifRingCase(r *vh.Rng, o *vh.Out, id string, hard bool, thorough bool) {
	h := "0"
	if hard {
		h = "1"
	}
	o.Case(id, h)
	b := NewBuffer()
	g := &verifRingGen{r: r, b: b, o: o}
	mode := r.Intn(100)
	if mode >= 90 && ((!thorough && r.Chance(90)) || (thorough && r.Chance(75))) {
		mode = r.Intn(90) // the 4 MiB histories are expensive for the list-based model: 1% of the quick cases, 2.5% of the thorough ones
	}
	switch {
	case mode < 40: // small ring, aim at the ring end with every offset
		if r.Chance(30) {
			g.do(fmt.Sprintf("lc %d", r.Pick(0, 1, 2, 3, 5, -1)))
		}
		steps := 20 + r.Intn(60)
		for i := 0; i < steps; i++ {
			switch c := r.Intn(100); {
			case c < 45:
				// packet length chosen so that header or payload ends near the ring end
				n := g.toEnd() - 2 + r.Intn(7) - 3
				if r.Chance(30) {
					n = r.Intn(600)
				}
				if n > 3000 {
					n = r.Intn(3000)
				}
				g.write(n)
			case c < 85:
				if g.cnt() > 0 {
					// destination lengths around the packet length: 0, len-1, len, len+1 are hit by small packets
					g.do(fmt.Sprintf("r %d", r.Pick(0, 1, 2, 3, 5, 100, 600, 3000, 70000)))
				} else {
					g.write(r.Intn(1200))
				}
			case c < 90:
				g.write(r.Pick(0, 1, 2))
			case c < 93:
				g.do(fmt.Sprintf("ls %d", r.Pick(0, 10, 100, 2047, 2048, 2049, 4095, 4096, 4097, -5)))
			case c < 96:
				g.do(fmt.Sprintf("lc %d", r.Pick(0, 1, 2, 4, 8)))
			case c < 97:
				g.do("close")
			default:
				g.write(r.Pick(65535, 65536, 65537, 70000, 60000))
			}
		}
	case mode < 65: // growth with data present, head at an arbitrary offset
		pre := r.Intn(6)
		for i := 0; i < pre; i++ {
			g.write(r.Intn(700))
		}
		g.readSome(r.Intn(pre + 1))
		target := r.Pick(1, 2, 3, 4, 5, 6, 7) // number of growth steps to cross
		sz := r.Pick(10, 100, 700, 1500, 5000, 20000, 65535)
		for !g.dead && g.sz() < 2048<<uint(target) && g.cnt() < 400 {
			g.write(sz + r.Intn(9) - 4)
			if r.Chance(15) {
				g.readSome(1 + r.Intn(3))
			}
		}
		g.readSome(3 + r.Intn(5))
		for i := 0; i < 5; i++ {
			g.write(g.toEnd() - 2 + r.Intn(5) - 2)
			g.readSome(1)
		}
		if r.Chance(50) {
			g.do("close")
		}
		for !g.dead && g.cnt() > 0 {
			g.readSome(50)
			g.nops++
		}
		if r.Chance(50) {
			g.do("r 10")
		}
	case mode < 90: // size limits around the growth sizes, approached from below with every remaining room
		k := r.Intn(8)
		lim := 2048<<uint(k) + r.Intn(5) - 2
		if r.Chance(20) {
			lim = r.Pick(1, 2, 3, 5, 10, 50, 300, 1000)
		}
		if (thorough && r.Chance(3)) || r.Chance(1) {
			lim = 4*1024*1024 + r.Intn(5) - 2 // expensive for the list-based model: rare in the quick tier
		}
		g.do(fmt.Sprintf("ls %d", lim))
		steps := 30 + r.Intn(60)
		for i := 0; i < steps; i++ {
			room := lim - g.sz() - 2
			switch c := r.Intn(100); {
			case c < 35:
				g.write(room + r.Intn(5) - 2)
			case c < 60:
				mx := room
				if mx > 9000 {
					mx = 9000
				}
				if mx < 1 {
					mx = 1
				}
				g.write(r.Intn(mx))
			case c < 88:
				g.readSome(1 + r.Intn(2))
			case c < 94:
				lim = 2048<<uint(r.Intn(8)) + r.Intn(5) - 2
				if r.Chance(30) {
					lim = r.Pick(0, -1, 7, 100)
				}
				g.do(fmt.Sprintf("ls %d", lim))
				if lim <= 0 {
					lim = 4 * 1024 * 1024
				}
			default:
				g.do(fmt.Sprintf("lc %d", r.Pick(0, 1, 3, 10)))
			}
			if lim > 300000 && i > 40 {
				break
			}
		}
	default: // the 4 MiB cap (no size limit) or a limit above it
		big := 0
		if r.Chance(40) {
			big = 4*1024*1024 + r.Pick(-1, 0, 1, 2, 1000, 1<<20, 3<<20)
			g.do(fmt.Sprintf("ls %d", big))
		}
		capv := 4 * 1024 * 1024
		if big > 0 && !hard {
			capv = big + 1
		}
		pre := r.Intn(4)
		for i := 0; i < pre; i++ {
			g.write(r.Intn(3000))
		}
		g.readSome(r.Intn(pre + 1))
		for !g.dead && capv-1-g.sz() > 70000 {
			g.write(r.Pick(65535, 65000, 64000, 65535, 65535))
		}
		for i := 0; i < 12; i++ {
			room := capv - 1 - g.sz() - 2
			if big > 0 && !hard {
				room = big - g.sz() - 2
			}
			g.write(room + r.Intn(5) - 2)
			if r.Chance(40) {
				g.readSome(1)
			}
			if r.Chance(10) {
				// drop the limit while the ring is large
				g.do(fmt.Sprintf("ls %d", r.Pick(0, 0, big, 8192)))
			}
		}
		g.readSome(5)
	}
}

func TestVerifRing(t *testing.T) {
	hard := sizeHardLimit
	vh.RunShards(func(shard int, r *vh.Rng, o *vh.Out, n int) {
		for i := 0; i < n; i++ {
			verifRingCase(r, o, fmt.Sprintf("%d.%d", shard, i), hard, vh.Thorough())
		}
	}, func(cs []vh.Case, o *vh.Out) {
		for _, c := range cs {
			h := "0"
			if hard {
				h = "1"
			}
			o.Case(c.ID, h)
			b := NewBuffer()
			closed := false
			dead := false
			for _, f := range c.Ops {
				op := f[0]
				for _, x := range f[1:] {
					op += " " + x
				}
				if dead {
					o.Op(op, "skipped", "-")
					continue
				}
				out := verifRingOp(b, &closed, f)
				if strings.HasPrefix(out, "panic") {
					dead = true
					o.Op(op, out, "-")
					continue
				}
				o.Op(op, out, verifRingSt(b))
			}
		}
	})
}
