package packetio

import (
	"errors"
	"fmt"
	"io"
	"strings"
	"testing"
	"time"

	"github.com/pion/transport/v3/verifshim/cosched"
	"github.com/pion/transport/v3/verifshim/vh"
)

// verifSyncRun executes one controlled scenario: pre packets are written first, then nR readers,
// nW writers and nC closers run under the controlled scheduler following `sched` (thread indices);
// when sched is nil a random schedule is drawn from r.
func verifSyncRun(o *vh.Out, id string, pre, nR, nW, nC int, sched []int, r *vh.Rng) {
	o.Case(id, fmt.Sprintf("%d %d %d %d", pre, nR, nW, nC))
	cosched.Reset()
	b := NewBuffer()
	for i := 0; i < pre; i++ {
		_, _ = b.Write([]byte{byte(i)})
	}
	n := nR + nW + nC
	results := make([]string, n)
	names := make([]string, n)
	closedFlag := false
	for i := 0; i < n; i++ {
		i := i
		switch {
		case i < nR:
			names[i] = cosched.Go("r", func() {
				buf := make([]byte, 8)
				_, err := b.Read(buf)
				switch {
				case err == nil || errors.Is(err, io.ErrShortBuffer):
					results[i] = "got"
				case errors.Is(err, io.EOF):
					results[i] = "eof"
				default:
					results[i] = "err"
				}
			})
		case i < nR+nW:
			names[i] = cosched.Go("w", func() {
				// every other writer's packet is longer than the readers' slices (a short read is still a read)
				payload := []byte{byte(i)}
				if i%2 == 1 {
					payload = make([]byte, 12)
				}
				_, err := b.Write(payload)
				if err == nil {
					results[i] = "wrote"
				} else {
					results[i] = "refused"
				}
			})
		default:
			names[i] = cosched.Go("c", func() {
				_ = b.Close()
				closedFlag = true
				results[i] = "closed"
			})
		}
	}
	index := map[string]int{}
	for i, nm := range names {
		index[nm] = i
	}
	line := func() string {
		pos := cosched.Positions()
		pcs := make([]string, n)
		for _, p := range pos {
			i := index[p.Name]
			switch {
			case p.State == "done":
				pcs[i] = results[i]
			case p.State == "at start":
				pcs[i] = "S"
			case strings.HasPrefix(p.State, "at ") && strings.Contains(p.State, ":lock#"):
				pcs[i] = "L"
			case strings.HasPrefix(p.State, "at ") && strings.Contains(p.State, ":select#"):
				pcs[i] = "X"
			case p.State == "parked select":
				pcs[i] = "P"
			default:
				pcs[i] = "?" + strings.ReplaceAll(p.State, " ", "_")
			}
		}
		k := "0"
		if closedFlag {
			k = "1"
		}
		return fmt.Sprintf("c=%d k=%s %s", b.Count(), k, strings.Join(pcs, ","))
	}
	cosched.Quiesce(2 * time.Second)
	step := 0
	eofWithData := 0
	biased := sched == nil && r.Chance(50)
	phased := sched == nil && r.Chance(25)
	pcOf := func(name string) string {
		for _, p := range cosched.Positions() {
			if p.Name == name {
				return p.State
			}
		}
		return ""
	}
	for {
		ay := cosched.AtYield()
		if len(ay) == 0 || step > 400 {
			break
		}
		var t int
		if sched != nil && step >= len(sched) {
			// the scripted part is over: run the remaining threads to quiescence, lowest index first
			t = n
			for _, nm := range ay {
				if index[nm] < t {
					t = index[nm]
				}
			}
		} else if sched != nil {
			t = sched[step]
			if t >= n || !contains(ay, names[t]) {
				o.Op(fmt.Sprintf("step %d", t), "not-at-yield", "")
				step++
				continue
			}
		} else {
			t = index[ay[r.Intn(len(ay))]]
			if phased {
				// readers into the window first, then every writer, then every closer, then whatever is left
				pick := -1
				for _, nm := range ay {
					i := index[nm]
					if i < nR && !strings.Contains(pcOf(nm), ":select#") {
						pick = i
						break
					}
				}
				if pick < 0 {
					for _, nm := range ay {
						if i := index[nm]; i >= nR {
							pick = i // writers come before closers in creation order
							break
						}
					}
				}
				if pick >= 0 {
					t = pick
				}
			} else if biased {
				// readers first: bring every reader as far as the wait (between unlock and select, or parked)
				// before anything else runs; once none can be advanced that way, continue at random
				for _, nm := range ay {
					i := index[nm]
					if i < nR && !strings.Contains(pcOf(nm), ":select#") {
						t = i
						break
					}
				}
			}
		}
		eofBefore := countEOF(results)
		if !cosched.Step(names[t], 2*time.Second) {
			o.Op(fmt.Sprintf("step %d", t), "stuck "+line(), "")
			break
		}
		// a Read that reports end-of-file while packets are still buffered (nothing can be added after Close)
		if countEOF(results) > eofBefore && b.Count() > 0 {
			eofWithData++
		}
		o.Op(fmt.Sprintf("step %d", t), line(), "")
		step++
	}
	o.Op(fmt.Sprintf("end # %s bad=%d", line(), eofWithData), "end", "")
	// release everything that is still blocked
	cosched.Disable()
	_ = b.Close()
	cosched.Quiesce(2 * time.Second)
}

func countEOF(results []string) int {
	n := 0
	for _, r := range results {
		if r == "eof" {
			n++
		}
	}
	return n
}

func contains(l []string, x string) bool {
	for _, y := range l {
		if y == x {
			return true
		}
	}
	return false
}

func TestVerifBufSync(t *testing.T) {
	// the controlled scheduler is process-global: one scenario at a time
	vh.RunShardsSerial(func(shard int, r *vh.Rng, o *vh.Out, n int) {
		for i := 0; i < n; i++ {
			nR := 1 + r.Intn(4)
			nW := r.Intn(5)
			nC := 0
			if r.Chance(35) {
				nC = 1 + r.Intn(2)
			}
			pre := r.Pick(0, 0, 0, 1, 2)
			verifSyncRun(o, fmt.Sprintf("%d.%d", shard, i), pre, nR, nW, nC, nil, r)
		}
	}, func(cs []vh.Case, o *vh.Out) {
		for _, c := range cs {
			var sched []int
			for _, f := range c.Ops {
				if f[0] == "step" {
					sched = append(sched, vh.Atoi(f[1]))
				}
			}
			verifSyncRun(o, c.ID, vh.Atoi(c.Cfg[0]), vh.Atoi(c.Cfg[1]), vh.Atoi(c.Cfg[2]), vh.Atoi(c.Cfg[3]), sched, nil)
		}
	})
}
