// Package vtime is a discrete-event clock that stands in for the time package in sources
// rewritten by the /verif overlay (time.Now/Since/Until/Sleep/NewTimer/AfterFunc/After/Timer become
// vtime.*). Nothing happens until the harness calls Advance. Timer channels follow the semantics of
// Go's runtime for GODEBUG asynctimerchan=1 (the repository's go.mod says go 1.20): a channel of
// capacity 1, a non-blocking send at expiry, Reset does not drain the channel, Stop reports whether
// the call prevented the expiry. AfterFunc callbacks run in fresh goroutines.
package vtime

import (
	"sort"
	"sync"
	"time"
)

var (
	mu     sync.Mutex
	now    = time.Date(2030, 1, 1, 0, 0, 0, 0, time.UTC)
	timers []*Timer
	seq    uint64
	// Fired counts timer expiries dispatched so far (for harness bookkeeping).
	Fired int
	// Late is added to the time value a channel timer delivers: the runtime never fires early and
	// in practice always a little late.
	Late time.Duration
)

// Timer mirrors time.Timer.
type Timer struct {
	C      <-chan time.Time
	c      chan time.Time
	f      func()
	when   time.Time
	active bool
	id     uint64
}

func Now() time.Time { mu.Lock(); defer mu.Unlock(); return now }

func Since(t time.Time) time.Duration { return Now().Sub(t) }

func Until(t time.Time) time.Duration { return t.Sub(Now()) }

func add(t *Timer, d time.Duration) {
	if d < 0 {
		d = 0
	}
	seq++
	t.id = seq
	t.when = now.Add(d)
	t.active = true
	timers = append(timers, t)
}

func remove(t *Timer) {
	for i, x := range timers {
		if x == t {
			timers = append(timers[:i], timers[i+1:]...)
			return
		}
	}
}

func NewTimer(d time.Duration) *Timer {
	mu.Lock()
	defer mu.Unlock()
	c := make(chan time.Time, 1)
	t := &Timer{C: c, c: c}
	tickers = append(tickers, t)
	add(t, d)
	return t
}

func AfterFunc(d time.Duration, f func()) *Timer {
	mu.Lock()
	defer mu.Unlock()
	t := &Timer{f: f}
	add(t, d)
	return t
}

func After(d time.Duration) <-chan time.Time { return NewTimer(d).C }

func (t *Timer) Stop() bool {
	mu.Lock()
	defer mu.Unlock()
	was := t.active
	if was {
		t.active = false
		remove(t)
	}
	return was
}

func (t *Timer) Reset(d time.Duration) bool {
	mu.Lock()
	defer mu.Unlock()
	was := t.active
	if was {
		remove(t)
	}
	add(t, d)
	return was
}

// Sleep blocks until the virtual clock has advanced by d.
func Sleep(d time.Duration) {
	if d <= 0 {
		return
	}
	<-NewTimer(d).C
}

// due returns the earliest active timer with when <= limit (FIFO among equal times).
func due(limit time.Time) *Timer {
	sort.SliceStable(timers, func(i, j int) bool {
		if timers[i].when.Equal(timers[j].when) {
			return timers[i].id < timers[j].id
		}
		return timers[i].when.Before(timers[j].when)
	})
	if len(timers) > 0 && !timers[0].when.After(limit) {
		return timers[0]
	}
	return nil
}

// Advance moves the clock forward by d, dispatching every expiry on the way at its own time.
// After each expiry settle() is called (the harness uses it to wait until the woken goroutines are
// parked again), so that code reacting to a timer observes the time at which that timer was due.
func Advance(d time.Duration, settle func()) {
	mu.Lock()
	target := now.Add(d)
	for {
		t := due(target)
		if t == nil {
			break
		}
		if t.when.After(now) {
			now = t.when
		}
		t.active = false
		remove(t)
		Fired++
		if t.f != nil {
			f := t.f
			mu.Unlock()
			go f()
		} else {
			select {
			case t.c <- now.Add(Late):
			default:
			}
			mu.Unlock()
		}
		if settle != nil {
			settle()
		}
		mu.Lock()
	}
	now = target
	mu.Unlock()
}

// NextDue returns the time until the earliest active timer, or -1 if none is armed.
func NextDue() time.Duration {
	mu.Lock()
	defer mu.Unlock()
	t := due(now.Add(1 << 62))
	if t == nil {
		return -1
	}
	return t.when.Sub(now)
}

// Reset restores the initial state (between cases).
func ResetClock() {
	mu.Lock()
	defer mu.Unlock()
	now = time.Date(2030, 1, 1, 0, 0, 0, 0, time.UTC)
	timers = nil
	tickers = nil
	Fired = 0
	Late = 0
}

// Ticks returns how many channel timers hold an undelivered tick in their channel.
var tickers []*Timer

// PendingTicks counts undelivered ticks of all channel timers created since the last ResetClock.
func PendingTicks() int {
	mu.Lock()
	defer mu.Unlock()
	n := 0
	for _, t := range tickers {
		n += len(t.c)
	}
	return n
}

// Step moves the clock forward by d and then dispatches at most ONE due expiry (the earliest), at
// the new time. It reports whether a timer fired. Used by harnesses whose model takes one expiry per step.
func Step(d time.Duration, settle func()) bool {
	mu.Lock()
	now = now.Add(d)
	t := due(now)
	if t == nil {
		mu.Unlock()
		return false
	}
	t.active = false
	remove(t)
	Fired++
	if t.f != nil {
		f := t.f
		mu.Unlock()
		go f()
	} else {
		select {
		case t.c <- now.Add(Late):
		default:
		}
		mu.Unlock()
	}
	if settle != nil {
		settle()
	}
	return true
}

// SinceEpoch is the virtual time in nanoseconds since the clock was reset.
func SinceEpoch() int64 {
	return int64(Now().Sub(time.Date(2030, 1, 1, 0, 0, 0, 0, time.UTC)))
}
