// Package vh is the helper package of the /verif harnesses. It is injected into
// the module under test by `go test -overlay` (never committed to the repository).
package vh

import (
	"bufio"
	"fmt"
	"os"
	"path/filepath"
	"runtime"
	"strconv"
	"strings"
	"sync"
	"time"
)

// Rng is splitmix64: every random choice of a harness derives from VERIF_SEED.
type Rng struct{ s uint64 }

func NewRng(seed uint64) *Rng { return &Rng{s: seed*0x9E3779B97F4A7C15 + 0x1234567} }

func (r *Rng) U64() uint64 {
	r.s += 0x9E3779B97F4A7C15
	z := r.s
	z = (z ^ (z >> 30)) * 0xBF58476D1CE4E5B9
	z = (z ^ (z >> 27)) * 0x94D049BB133111EB
	return z ^ (z >> 31)
}

// Intn returns a value in [0,n).
func (r *Rng) Intn(n int) int {
	if n <= 0 {
		return 0
	}
	return int(r.U64() % uint64(n))
}

// Pick returns one of the given values.
func (r *Rng) Pick(v ...int) int { return v[r.Intn(len(v))] }

// Chance is true with probability pct/100.
func (r *Rng) Chance(pct int) bool { return r.Intn(100) < pct }

func (r *Rng) Bytes(n int) []byte {
	b := make([]byte, n)
	for i := range b {
		b[i] = byte(r.U64())
	}
	return b
}

func EnvInt(name string, def int) int {
	v := os.Getenv(name)
	if v == "" {
		return def
	}
	n, err := strconv.Atoi(v)
	if err != nil {
		return def
	}
	return n
}

func Seed() uint64       { return uint64(EnvInt("VERIF_SEED", 1)) }
func N() int             { return EnvInt("VERIF_N", 100) }
func Shards() int        { return EnvInt("VERIF_SHARDS", 1) }
func Thorough() bool     { return os.Getenv("VERIF_TIER") == "thorough" }
func OutDir() string     { return os.Getenv("VERIF_OUT") }
func ReplayFile() string { return os.Getenv("VERIF_REPLAY") }

// Out is a pair of line-aligned files: the operations and what the implementation answered.
type Out struct {
	ops, impl *bufio.Writer
	fo, fi    *os.File
}

func Open(shard int) *Out {
	d := OutDir()
	fo, err := os.Create(filepath.Join(d, fmt.Sprintf("ops-%d.txt", shard)))
	if err != nil {
		panic(err)
	}
	fi, err := os.Create(filepath.Join(d, fmt.Sprintf("impl-%d.txt", shard)))
	if err != nil {
		panic(err)
	}
	return &Out{ops: bufio.NewWriterSize(fo, 1<<20), impl: bufio.NewWriterSize(fi, 1<<20), fo: fo, fi: fi}
}

// Case starts a new case; cfg is the configuration text after the case number.
func (o *Out) Case(id string, cfg string) {
	fmt.Fprintf(o.ops, "case %s %s\n", id, cfg)
	fmt.Fprintf(o.impl, "case %s\n", id)
}

// Op records one operation and the implementation's answer (out | state).
func (o *Out) Op(op string, out string, state string) {
	o.ops.WriteString(op)
	o.ops.WriteByte('\n')
	o.impl.WriteString(out)
	if state != "" {
		o.impl.WriteString(" | ")
		o.impl.WriteString(state)
	}
	o.impl.WriteByte('\n')
}

func (o *Out) Close() {
	o.ops.Flush()
	o.impl.Flush()
	o.fo.Close()
	o.fi.Close()
}

// ReplayCases reads an ops file: a list of cases, each a config line and op lines.
type Case struct {
	ID  string
	Cfg []string
	Ops [][]string
}

func ReadCases(path string) []Case {
	data, err := os.ReadFile(path)
	if err != nil {
		panic(err)
	}
	var cs []Case
	for _, ln := range strings.Split(string(data), "\n") {
		ln = strings.TrimSpace(ln)
		if ln == "" || strings.HasPrefix(ln, "#") {
			continue
		}
		f := strings.Fields(ln)
		if f[0] == "case" {
			cs = append(cs, Case{ID: f[1], Cfg: f[2:]})
			continue
		}
		if len(cs) == 0 {
			cs = append(cs, Case{ID: "0"})
		}
		cs[len(cs)-1].Ops = append(cs[len(cs)-1].Ops, f)
	}
	return cs
}

// RunShards runs f(shard, rng, out, ncases) on all shards in parallel, or the replay file on shard 0.
func RunShards(f func(shard int, r *Rng, o *Out, n int), replay func(cs []Case, o *Out)) {
	if rp := ReplayFile(); rp != "" {
		o := Open(0)
		replay(ReadCases(rp), o)
		o.Close()
		return
	}
	sh := Shards()
	n := N()
	var wg sync.WaitGroup
	for s := 0; s < sh; s++ {
		wg.Add(1)
		go func(s int) {
			defer wg.Done()
			o := Open(s)
			defer o.Close()
			cnt := n / sh
			if s < n%sh {
				cnt++
			}
			f(s, NewRng(Seed()*1000003+uint64(s)), o, cnt)
		}(s)
	}
	wg.Wait()
}

// RunShardsSerial is RunShards without parallelism (for code under test with process-global state).
func RunShardsSerial(f func(shard int, r *Rng, o *Out, n int), replay func(cs []Case, o *Out)) {
	if rp := ReplayFile(); rp != "" {
		o := Open(0)
		replay(ReadCases(rp), o)
		o.Close()
		return
	}
	sh := Shards()
	n := N()
	for s := 0; s < sh; s++ {
		o := Open(s)
		cnt := n / sh
		if s < n%sh {
			cnt++
		}
		f(s, NewRng(Seed()*1000003+uint64(s)), o, cnt)
		o.Close()
	}
}

// Fields splits an operation line.
func Fields(s string) []string { return strings.Fields(s) }

func Atoi(s string) int {
	n, err := strconv.Atoi(s)
	if err != nil {
		panic("bad int " + s)
	}
	return n
}

func Atou(s string) uint64 {
	n, err := strconv.ParseUint(s, 10, 64)
	if err != nil {
		panic("bad uint " + s)
	}
	return n
}

const hexd = "0123456789abcdef"

// Hex encodes bytes; the empty slice is "-".
func Hex(b []byte) string {
	if len(b) == 0 {
		return "-"
	}
	out := make([]byte, 2*len(b))
	for i, c := range b {
		out[2*i] = hexd[c>>4]
		out[2*i+1] = hexd[c&15]
	}
	return string(out)
}

func UnHex(s string) []byte {
	if s == "-" {
		return []byte{}
	}
	out := make([]byte, len(s)/2)
	for i := range out {
		v, err := strconv.ParseUint(s[2*i:2*i+2], 16, 8)
		if err != nil {
			panic("bad hex " + s)
		}
		out[i] = byte(v)
	}
	return out
}

// parkedStates are the goroutine wait states in which a goroutine can make no progress by itself.
var parkedStates = []string{"chan receive", "chan send", "select", "semacquire", "sync.Cond.Wait", "sync.WaitGroup.Wait", "IO wait", "sync.Mutex.Lock", "sync.RWMutex.RLock", "sync.RWMutex.Lock", "sleep"}

// Goroutines returns, for every goroutine whose stack mentions substr, its wait state ("running",
// "runnable", "select", "chan receive", …) as printed by runtime.Stack.
func Goroutines(substr string) []string {
	buf := make([]byte, 1<<20)
	for {
		n := runtime.Stack(buf, true)
		if n < len(buf) {
			buf = buf[:n]
			break
		}
		buf = make([]byte, 2*len(buf))
	}
	var out []string
	for _, g := range strings.Split(string(buf), "\n\n") {
		if !strings.Contains(g, substr) {
			continue
		}
		l := g
		if i := strings.Index(l, "\n"); i >= 0 {
			l = l[:i]
		}
		a, b := strings.Index(l, "["), strings.Index(l, "]")
		if a < 0 || b < a {
			continue
		}
		st := l[a+1 : b]
		if i := strings.Index(st, ","); i >= 0 {
			st = st[:i]
		}
		out = append(out, st)
	}
	return out
}

// WaitParked waits until there are exactly want goroutines whose stack mentions substr (want < 0: any
// number >= 0) and all of them are parked. It reports false on timeout.
func WaitParked(substr string, want int, timeout time.Duration) bool {
	deadline := time.Now().Add(timeout)
	stable := 0
	for {
		gs := Goroutines(substr)
		ok := want < 0 || len(gs) == want
		for _, st := range gs {
			p := false
			for _, x := range parkedStates {
				if st == x {
					p = true
				}
			}
			if !p {
				ok = false
			}
		}
		if ok {
			// a goroutine that was just readied can still be reported with its old wait state for a
			// moment; accept quiescence only when two dumps in a row agree
			stable++
			if stable >= 2 {
				return true
			}
			runtime.Gosched()
			continue
		}
		stable = 0
		if time.Now().After(deadline) {
			return false
		}
		runtime.Gosched()
		time.Sleep(20 * time.Microsecond)
	}
}
