// Package ctxh is the shared harness for context-aware I/O wrappers (C17): a scripted wrapped
// connection whose blocking calls stop at a yield point every time they look at their state, and a
// driver loop that runs one operation at a time under the controlled scheduler.
package ctxh

import (
	"context"
	"errors"
	"fmt"
	"net"
	"os"
	"strings"
	"sync"
	"time"

	"github.com/pion/transport/v3/verifshim/cosched"
	"github.com/pion/transport/v3/verifshim/vh"
)

// Fake is the wrapped connection: net.Conn and net.PacketConn at once.
type Fake struct {
	mu          sync.Mutex
	rOld, wOld  bool // read / write deadline is in the past
	rAvail      int  // bytes a Read can return
	wAvail      int  // bytes a Write will take
	Transferred int  // bytes that actually went through
	rPos        int  // next byte of the inbound stream
	Sink        []byte
	Moved       map[string]int // bytes transferred per calling (managed) goroutine
}

type fakeAddr struct{}

func (fakeAddr) Network() string { return "fake" }
func (fakeAddr) String() string  { return "fake" }

func (f *Fake) call(isRead bool, b []byte, stream bool) (int, error) {
	want := len(b)
	done := 0
	who := cosched.Name()
	for {
		cosched.Yield("fake:call")
		f.mu.Lock()
		old, avail := f.rOld, &f.rAvail
		if !isRead {
			old, avail = f.wOld, &f.wAvail
		}
		if old {
			f.mu.Unlock()
			return done, os.ErrDeadlineExceeded
		}
		if *avail > 0 {
			k := *avail
			if want-done < k {
				k = want - done
			}
			*avail -= k
			f.Transferred += k
			if f.Moved == nil {
				f.Moved = map[string]int{}
			}
			f.Moved[who] += k
			if isRead {
				for i := 0; i < k; i++ {
					b[i] = byte(f.rPos*7 + 3)
					f.rPos++
				}
			} else {
				f.Sink = append(f.Sink, b[done:done+k]...)
			}
			done += k
			// a read or a packet write returns what it got; a stream write returns once everything is written
			if !stream || done == want {
				f.mu.Unlock()
				return done, nil
			}
		}
		f.mu.Unlock()
		if !cosched.Managed() {
			time.Sleep(50 * time.Microsecond)
		}
	}
}

func (f *Fake) Read(b []byte) (int, error)  { return f.call(true, b, false) }
func (f *Fake) Write(b []byte) (int, error) { return f.call(false, b, true) }
func (f *Fake) ReadFrom(b []byte) (int, net.Addr, error) {
	n, err := f.call(true, b, false)
	return n, fakeAddr{}, err
}
func (f *Fake) WriteTo(b []byte, _ net.Addr) (int, error) { return f.call(false, b, false) }
func (f *Fake) Close() error                              { return nil }
func (f *Fake) LocalAddr() net.Addr                       { return fakeAddr{} }
func (f *Fake) RemoteAddr() net.Addr                      { return fakeAddr{} }
func (f *Fake) set(p *bool, t time.Time) {
	f.mu.Lock()
	*p = !t.IsZero() && t.Before(time.Now())
	f.mu.Unlock()
}
func (f *Fake) SetDeadline(t time.Time) error      { f.set(&f.rOld, t); f.set(&f.wOld, t); return nil }
func (f *Fake) SetReadDeadline(t time.Time) error  { f.set(&f.rOld, t); return nil }
func (f *Fake) SetWriteDeadline(t time.Time) error { f.set(&f.wOld, t); return nil }

// Wrapped is what the harness drives: the two context-aware calls of the wrapper under test.
type Wrapped struct {
	Read  func(ctx context.Context, b []byte) (int, error)
	Write func(ctx context.Context, b []byte) (int, error)
}

// opRec is one context-aware operation in progress.
type opRec struct {
	isRead    bool
	cancel    context.CancelFunc
	ctx       context.Context
	main      string
	watcher   string
	n         int
	err       error
	finished  bool
	judged    bool
	cancelled bool
	before    int
	buf       []byte
	granted   bool // (queued operation) has been scheduled once: it sits in the wrapper's mutex
}

type runner struct {
	f     *Fake
	w     Wrapped
	cur   *opRec
	q     *opRec // a second operation of the same direction, queued behind cur on the wrapper's mutex
	rGot  int    // bytes reads have reported so far
	wSent int    // bytes writes have handed to operations so far
	known map[string]bool
}

func (r *runner) spawn(isRead bool, want int, cancelledBefore bool, site string) *opRec {
	op := &opRec{isRead: isRead, cancelled: cancelledBefore, before: r.f.Transferred}
	op.ctx, op.cancel = context.WithCancel(context.Background())
	if cancelledBefore {
		op.cancel()
	}
	buf := make([]byte, want)
	if !isRead {
		for i := range buf {
			buf[i] = byte((r.wSent+i)*5 + 1)
		}
	}
	op.buf = buf
	op.main = cosched.Go(site, func() {
		if isRead {
			op.n, op.err = r.w.Read(op.ctx, buf)
		} else {
			op.n, op.err = r.w.Write(op.ctx, buf)
		}
		op.finished = true
	})
	r.known[op.main] = true
	cosched.Quiesce(2 * time.Second)
	return op
}

func (r *runner) begin(isRead bool, want int, cancelledBefore bool) {
	cosched.Reset()
	r.f.mu.Lock()
	r.f.Moved = map[string]int{} // goroutine names start over
	r.f.mu.Unlock()
	r.known = map[string]bool{}
	r.q = nil
	r.cur = r.spawn(isRead, want, cancelledBefore, "m")
}

// adopt gives a goroutine that appeared while op's caller ran to op as its watcher.
func (r *runner) adopt(op *opRec) {
	if op.watcher != "" {
		return
	}
	for _, p := range cosched.Positions() {
		if !r.known[p.Name] {
			r.known[p.Name] = true
			op.watcher = p.Name
			return
		}
	}
}

func pcOf(state string) string {
	switch {
	case state == "at start":
		return "start"
	case state == "at fake:call":
		return "inCall"
	case strings.Contains(state, ":wait#"):
		return "atWait"
	case state == "parked semacquire" || state == "parked sync.WaitGroup.Wait":
		return "parkedWait"
	case state == "parked sync.Mutex.Lock":
		return "lockWait"
	case strings.Contains(state, ":select#"):
		return "atSelect"
	case state == "parked select":
		return "parkedSelect"
	case strings.Contains(state, ":recv#"):
		return "atRecv"
	case state == "parked chan receive":
		return "parkedRecv"
	case state == "done":
		return "finished"
	}
	return "?" + strings.ReplaceAll(state, " ", "_")
}

func errKind(err error) string {
	switch {
	case err == nil:
		return "nil"
	case errors.Is(err, context.Canceled) || errors.Is(err, context.DeadlineExceeded):
		return "ctx"
	case errors.Is(err, os.ErrDeadlineExceeded):
		return "timeout"
	}
	return "other"
}

func (r *runner) line() string {
	op := r.cur
	m, w, q := "?", "none", "-"
	for _, p := range cosched.Positions() {
		pc := pcOf(p.State)
		switch {
		case p.Name == op.main:
			m = pc
		case p.Name == op.watcher:
			if pc == "finished" {
				pc = "exited"
			}
			w = pc
		case r.q != nil && p.Name == r.q.main:
			q = pc
			// blocked in the wrapper's mutex: whichever way the runtime parks it
			if r.q.granted && pc == "parkedWait" {
				q = "lockWait"
			}
		}
	}
	r.f.mu.Lock()
	old, avail := r.f.rOld, r.f.rAvail
	if !op.isRead {
		old, avail = r.f.wOld, r.f.wAvail
	}
	r.f.mu.Unlock()
	res := "-"
	if op.finished {
		res = fmt.Sprintf("%d,%s", op.n, errKind(op.err))
	}
	o := 0
	if old {
		o = 1
	}
	return fmt.Sprintf("M=%s W=%s old=%d avail=%d res=%s Q=%s", m, w, o, avail, res, q)
}

// op executes: begin r|w <want> <cancelled 0|1> | begin2 <want> <cancelled 0|1> | m | w | m2 | cancel | data <k> | promote
func (r *runner) op(f []string) string {
	switch f[0] {
	case "begin":
		// operations of one wrapper are consecutive: a begin while one is in progress (a shrunk replay can
		// contain that) is ignored, here and in the driver
		if r.cur != nil && !r.cur.finished {
			return r.line()
		}
		r.begin(f[1] == "r", vh.Atoi(f[2]), f[3] == "1")
		return r.line()
	case "begin2":
		if r.cur != nil && r.q == nil && r.cur.isRead {
			r.q = r.spawn(r.cur.isRead, vh.Atoi(f[1]), f[2] == "1", "m2")
		}
	case "m":
		r.cur.granted = true
		cosched.Step(r.cur.main, 2*time.Second)
		r.adopt(r.cur)
	case "m2":
		// only once the first operation is inside the wrapper (it holds the mutex from its first step on)
		if r.q != nil && r.cur.granted {
			r.q.granted = true
			cosched.Step(r.q.main, 2*time.Second)
			r.adopt(r.q)
		}
	case "w", "wc":
		if r.cur.watcher != "" {
			cosched.Step(r.cur.watcher, 2*time.Second)
		}
	case "cancel":
		r.cur.cancel()
		r.cur.cancelled = true
		cosched.Quiesce(2 * time.Second)
	case "data":
		r.f.mu.Lock()
		if r.cur.isRead {
			r.f.rAvail += vh.Atoi(f[1])
		} else {
			r.f.wAvail += vh.Atoi(f[1])
		}
		r.f.mu.Unlock()
	case "promote":
		// the queued operation takes over (the first one has returned and released the mutex)
		if r.q != nil {
			r.cur, r.q = r.q, nil
			r.adopt(r.cur)
		}
	}
	if r.q != nil {
		// a queued caller that got past the mutex spawns its watcher
		r.adopt(r.q)
	}
	return r.line()
}

// fin reports a completed operation for the oracle: what was reported, what really moved, whether
// the context had fired, whether the wrapped connection still carries a past deadline, and whether
// the bytes are the next ones of the stream.
func (r *runner) fin(op *opRec) string {
	op.judged = true
	r.f.mu.Lock()
	defer r.f.mu.Unlock()
	old := 0
	if r.f.rOld || r.f.wOld {
		old = 1
	}
	order := 1
	if op.isRead {
		for i := 0; i < op.n && i < len(op.buf); i++ {
			if op.buf[i] != byte((r.rGot+i)*7+3) {
				order = 0
			}
		}
		r.rGot += op.n
		if r.rGot != r.f.rPos {
			order = 0
		}
	} else {
		r.wSent += op.n
		if r.wSent != len(r.f.Sink) {
			order = 0
		}
		for i, c := range r.f.Sink {
			if c != byte(i*5+1) {
				order = 0
			}
		}
	}
	c := 0
	if op.cancelled {
		c = 1
	}
	return fmt.Sprintf("fin # n=%d err=%s moved=%d cancelled=%d old=%d order=%d want=%d", op.n, errKind(op.err), r.f.Moved[op.main], c, old, order, len(op.buf))
}

// Run executes one case. ops == nil: random.
func Run(o *vh.Out, id, kind string, mk func(inner *Fake) Wrapped, ops []string, rg *vh.Rng) {
	o.Case(id, kind)
	f := &Fake{}
	r := &runner{f: f, w: mk(f), known: map[string]bool{}}
	var emit func(op string)
	emit = func(op string) {
		fs := vh.Fields(op)
		if r.cur == nil && fs[0] != "begin" {
			return
		}
		// the watcher's select may have both cases ready: report which one Go took
		if fs[0] == "w" {
			f.mu.Lock()
			oldBefore := f.rOld || f.wOld
			f.mu.Unlock()
			out := r.op(fs)
			f.mu.Lock()
			oldAfter := f.rOld || f.wOld
			f.mu.Unlock()
			if !oldBefore && oldAfter {
				op = "wc"
			}
			o.Op(op, out, "")
		} else {
			o.Op(op, r.op(fs), "")
		}
		// a queued operation that returns before the first one got past the mutex too early; its result is judged all the same
		if r.q != nil && r.q.finished && !r.q.judged {
			o.Op(r.fin(r.q), "fin", "")
		}
		if r.cur.finished && !r.cur.judged {
			o.Op(r.fin(r.cur), "fin", "")
			if r.q != nil && fs[0] != "promote" {
				emit("promote")
			}
		}
	}
	if ops != nil {
		for _, op := range ops {
			if strings.HasPrefix(op, "end") || strings.HasPrefix(op, "fin") || strings.HasPrefix(op, "promote") {
				continue
			}
			emit(op)
		}
	} else {
		nOps := 1 + rg.Intn(4)
		for k := 0; k < nOps; k++ {
			rw := "r"
			if rg.Chance(40) {
				rw = "w"
			}
			emit(fmt.Sprintf("begin %s %d %d", rw, rg.Pick(1, 4, 8), rg.Pick(0, 0, 0, 1)))
			for i := 0; i < 60 && !(r.cur.finished && r.q == nil); i++ {
				var choices []string
				for _, p := range cosched.AtYield() {
					switch {
					case p == r.cur.main:
						choices = append(choices, "m", "m")
					case p == r.cur.watcher:
						choices = append(choices, "w", "w")
					case r.q != nil && p == r.q.main && r.cur.granted:
						choices = append(choices, "m2")
					}
				}
				if r.q == nil && r.cur.isRead && !r.cur.finished && rg.Chance(6) {
					choices = append(choices, fmt.Sprintf("begin2 %d %d", rg.Pick(1, 4, 8), rg.Pick(0, 0, 0, 1)))
				}
				if !r.cur.cancelled && rg.Chance(30) {
					choices = append(choices, "cancel")
				}
				if rg.Chance(25) {
					choices = append(choices, fmt.Sprintf("data %d", rg.Pick(1, 3, 8, 20)))
				}
				if len(choices) == 0 {
					// everything is blocked: an external event must happen
					if r.cur.cancelled {
						choices = []string{fmt.Sprintf("data %d", rg.Pick(1, 5))}
					} else {
						choices = []string{"cancel", fmt.Sprintf("data %d", rg.Pick(1, 5))}
					}
				}
				emit(choices[rg.Intn(len(choices))])
			}
			if !r.cur.finished || r.q != nil {
				break
			}
		}
	}
	// promptness: once the context has fired, running everything that can run must finish the operation
	stuck := 0
	if r.cur != nil && !r.cur.finished && r.cur.cancelled {
		draining := r.cur
		for i := 0; i < 30 && !draining.finished && r.cur == draining; i++ {
			// the watcher first (it parks after at most two grants), then the caller
			ys := cosched.AtYield()
			has := func(name string) bool {
				for _, y := range ys {
					if y == name && name != "" {
						return true
					}
				}
				return false
			}
			switch {
			case has(r.cur.watcher):
				emit("w")
			case has(r.cur.main):
				emit("m")
			default:
				i = 30
			}
		}
		if !draining.finished {
			stuck = 1
		}
	}
	o.Op(fmt.Sprintf("end # stuck=%d", stuck), "end", "")
	// release whatever is still blocked
	cosched.Disable()
	if r.cur != nil {
		r.cur.cancel()
	}
	if r.q != nil {
		r.q.cancel()
	}
	f.mu.Lock()
	f.rAvail += 1000
	f.wAvail += 1000
	f.mu.Unlock()
	time.Sleep(time.Millisecond)
}

// Main is the body of every package's TestVerifCtx.
func Main(kind string, mk func(inner *Fake) Wrapped) {
	vh.RunShardsSerial(func(shard int, rg *vh.Rng, o *vh.Out, n int) {
		for i := 0; i < n; i++ {
			Run(o, fmt.Sprintf("%d.%d", shard, i), kind, mk, nil, rg)
		}
	}, func(cs []vh.Case, o *vh.Out) {
		for _, c := range cs {
			var ops []string
			for _, f := range c.Ops {
				ops = append(ops, strings.Join(f, " "))
			}
			Run(o, c.ID, kind, mk, ops, nil)
		}
	})
}
