// Package ctxh is the shared harness for context-aware I/O wrappers (C17): a scripted wrapped
// connection whose blocking calls stop at a yield point every time they look at their state, and a
// driver loop that runs one operation at a time under the controlled scheduler.
package ctxh

import (
	"context"
	"errors"
	"fmt"
	"net"
	"os"
	"strings"
	"sync"
	"time"

	"github.com/pion/transport/v3/verifshim/cosched"
	"github.com/pion/transport/v3/verifshim/vh"
)

// Fake is the wrapped connection: net.Conn and net.PacketConn at once.
type Fake struct {
	mu          sync.Mutex
	rOld, wOld  bool // read / write deadline is in the past
	rAvail      int  // bytes a Read can return
	wAvail      int  // bytes a Write will take
	Transferred int  // bytes that actually went through
	rPos        int  // next byte of the inbound stream
	Sink        []byte
}

type fakeAddr struct{}

func (fakeAddr) Network() string { return "fake" }
func (fakeAddr) String() string  { return "fake" }

func (f *Fake) call(isRead bool, b []byte) (int, error) {
	want := len(b)
	for {
		cosched.Yield("fake:call")
		f.mu.Lock()
		old, avail := f.rOld, &f.rAvail
		if !isRead {
			old, avail = f.wOld, &f.wAvail
		}
		if old {
			f.mu.Unlock()
			return 0, os.ErrDeadlineExceeded
		}
		if *avail > 0 {
			k := *avail
			if want < k {
				k = want
			}
			*avail -= k
			f.Transferred += k
			if isRead {
				for i := 0; i < k; i++ {
					b[i] = byte(f.rPos*7 + 3)
					f.rPos++
				}
			} else {
				f.Sink = append(f.Sink, b[:k]...)
			}
			f.mu.Unlock()
			return k, nil
		}
		f.mu.Unlock()
		if !cosched.Managed() {
			time.Sleep(50 * time.Microsecond)
		}
	}
}

func (f *Fake) Read(b []byte) (int, error)  { return f.call(true, b) }
func (f *Fake) Write(b []byte) (int, error) { return f.call(false, b) }
func (f *Fake) ReadFrom(b []byte) (int, net.Addr, error) {
	n, err := f.call(true, b)
	return n, fakeAddr{}, err
}
func (f *Fake) WriteTo(b []byte, _ net.Addr) (int, error) { return f.call(false, b) }
func (f *Fake) Close() error                              { return nil }
func (f *Fake) LocalAddr() net.Addr                       { return fakeAddr{} }
func (f *Fake) RemoteAddr() net.Addr                      { return fakeAddr{} }
func (f *Fake) set(p *bool, t time.Time) {
	f.mu.Lock()
	*p = !t.IsZero() && t.Before(time.Now())
	f.mu.Unlock()
}
func (f *Fake) SetDeadline(t time.Time) error      { f.set(&f.rOld, t); f.set(&f.wOld, t); return nil }
func (f *Fake) SetReadDeadline(t time.Time) error  { f.set(&f.rOld, t); return nil }
func (f *Fake) SetWriteDeadline(t time.Time) error { f.set(&f.wOld, t); return nil }

// Wrapped is what the harness drives: the two context-aware calls of the wrapper under test.
type Wrapped struct {
	Read  func(ctx context.Context, b []byte) (int, error)
	Write func(ctx context.Context, b []byte) (int, error)
}

type runner struct {
	f        *Fake
	w        Wrapped
	isRead   bool
	cancel   context.CancelFunc
	ctx      context.Context
	main     string
	n        int
	err      error
	finished bool
	opN      int
	// judgement bookkeeping
	cancelled bool
	before    int
	buf       []byte
	rGot      int // bytes reads have reported so far
	wSent     int // bytes writes have reported so far
	judged    bool
}

func (r *runner) begin(isRead bool, want int, cancelledBefore bool) {
	cosched.Reset()
	r.isRead, r.finished, r.cancelled = isRead, false, cancelledBefore
	r.ctx, r.cancel = context.WithCancel(context.Background())
	if cancelledBefore {
		r.cancel()
	}
	r.before = r.f.Transferred
	r.opN++
	r.judged = false
	buf := make([]byte, want)
	if !isRead {
		for i := range buf {
			buf[i] = byte((r.wSent+i)*5 + 1)
		}
	}
	r.buf = buf
	r.main = cosched.Go("m", func() {
		if isRead {
			r.n, r.err = r.w.Read(r.ctx, buf)
		} else {
			r.n, r.err = r.w.Write(r.ctx, buf)
		}
		r.finished = true
	})
	cosched.Quiesce(2 * time.Second)
}

func (r *runner) watcherName() string {
	for _, p := range cosched.Positions() {
		if p.Name != r.main {
			return p.Name
		}
	}
	return ""
}

func (r *runner) line() string {
	m, w := "?", "none"
	for _, p := range cosched.Positions() {
		var pc string
		switch {
		case p.State == "at start":
			pc = "start"
		case p.State == "at fake:call":
			pc = "inCall"
		case strings.Contains(p.State, ":wait#"):
			pc = "atWait"
		case p.State == "parked semacquire" || p.State == "parked sync.WaitGroup.Wait":
			pc = "parkedWait"
		case strings.Contains(p.State, ":select#"):
			pc = "atSelect"
		case p.State == "parked select":
			pc = "parkedSelect"
		case strings.Contains(p.State, ":recv#"):
			pc = "atRecv"
		case p.State == "parked chan receive":
			pc = "parkedRecv"
		case p.State == "done":
			pc = "finished"
		default:
			pc = "?" + strings.ReplaceAll(p.State, " ", "_")
		}
		if p.Name == r.main {
			m = pc
		} else {
			if pc == "finished" {
				pc = "exited"
			}
			w = pc
		}
	}
	r.f.mu.Lock()
	old, avail := r.f.rOld, r.f.rAvail
	if !r.isRead {
		old, avail = r.f.wOld, r.f.wAvail
	}
	r.f.mu.Unlock()
	res := "-"
	if r.finished {
		e := "nil"
		switch {
		case r.err == nil:
		case errors.Is(r.err, context.Canceled) || errors.Is(r.err, context.DeadlineExceeded):
			e = "ctx"
		case errors.Is(r.err, os.ErrDeadlineExceeded):
			e = "timeout"
		default:
			e = "other"
		}
		res = fmt.Sprintf("%d,%s", r.n, e)
	}
	o := 0
	if old {
		o = 1
	}
	return fmt.Sprintf("M=%s W=%s old=%d avail=%d res=%s", m, w, o, avail, res)
}

// op executes: begin r|w <want> <cancelled 0|1> | m | w | cancel | data <k>
func (r *runner) op(f []string) string {
	switch f[0] {
	case "begin":
		r.begin(f[1] == "r", vh.Atoi(f[2]), f[3] == "1")
		return r.line()
	case "m":
		cosched.Step(r.main, 2*time.Second)
	case "w", "wc":
		if n := r.watcherName(); n != "" {
			cosched.Step(n, 2*time.Second)
		}
	case "cancel":
		r.cancel()
		r.cancelled = true
		cosched.Quiesce(2 * time.Second)
	case "data":
		r.f.mu.Lock()
		if r.isRead {
			r.f.rAvail += vh.Atoi(f[1])
		} else {
			r.f.wAvail += vh.Atoi(f[1])
		}
		r.f.mu.Unlock()
	}
	return r.line()
}

// fin reports a completed operation for the oracle: what was reported, what really moved, whether
// the context had fired, whether the wrapped connection still carries a past deadline, and whether
// the bytes are the next ones of the stream.
func (r *runner) fin() string {
	r.judged = true
	r.f.mu.Lock()
	defer r.f.mu.Unlock()
	old := 0
	if r.f.rOld || r.f.wOld {
		old = 1
	}
	order := 1
	if r.isRead {
		for i := 0; i < r.n && i < len(r.buf); i++ {
			if r.buf[i] != byte((r.rGot+i)*7+3) {
				order = 0
			}
		}
		r.rGot += r.n
		if r.rGot != r.f.rPos {
			order = 0
		}
	} else {
		r.wSent += r.n
		if r.wSent != len(r.f.Sink) {
			order = 0
		}
		for i, c := range r.f.Sink {
			if c != byte(i*5+1) {
				order = 0
			}
		}
	}
	e := "nil"
	switch {
	case r.err == nil:
	case errors.Is(r.err, context.Canceled) || errors.Is(r.err, context.DeadlineExceeded):
		e = "ctx"
	case errors.Is(r.err, os.ErrDeadlineExceeded):
		e = "timeout"
	default:
		e = "other"
	}
	c := 0
	if r.cancelled {
		c = 1
	}
	return fmt.Sprintf("fin # n=%d err=%s moved=%d cancelled=%d old=%d order=%d", r.n, e, r.f.Transferred-r.before, c, old, order)
}

// Run executes one case. ops == nil: random.
func Run(o *vh.Out, id, kind string, mk func(inner *Fake) Wrapped, ops []string, rg *vh.Rng) {
	o.Case(id, kind)
	f := &Fake{}
	r := &runner{f: f, w: mk(f)}
	emit := func(op string) {
		fs := vh.Fields(op)
		// the watcher's select may have both cases ready: report which one Go took
		if fs[0] == "w" {
			f.mu.Lock()
			oldBefore := f.rOld || f.wOld
			f.mu.Unlock()
			out := r.op(fs)
			f.mu.Lock()
			oldAfter := f.rOld || f.wOld
			f.mu.Unlock()
			if !oldBefore && oldAfter {
				op = "wc"
			}
			o.Op(op, out, "")
		} else {
			o.Op(op, r.op(fs), "")
		}
		if r.finished && !r.judged && r.opN > 0 {
			o.Op(r.fin(), "fin", "")
		}
	}
	if ops != nil {
		for _, op := range ops {
			if strings.HasPrefix(op, "end") || strings.HasPrefix(op, "fin") {
				continue
			}
			emit(op)
		}
	} else {
		nOps := 1 + rg.Intn(4)
		for k := 0; k < nOps; k++ {
			rw := "r"
			if rg.Chance(40) {
				rw = "w"
			}
			emit(fmt.Sprintf("begin %s %d %d", rw, rg.Pick(1, 4, 8), rg.Pick(0, 0, 0, 1)))
			for i := 0; i < 40 && !r.finished; i++ {
				var choices []string
				for _, p := range cosched.AtYield() {
					if p == r.main {
						choices = append(choices, "m", "m")
					} else {
						choices = append(choices, "w", "w")
					}
				}
				if !r.cancelled && rg.Chance(30) {
					choices = append(choices, "cancel")
				}
				if rg.Chance(25) {
					choices = append(choices, fmt.Sprintf("data %d", rg.Pick(1, 3, 8, 20)))
				}
				if len(choices) == 0 {
					// everything is blocked: an external event must happen
					if r.cancelled {
						choices = []string{fmt.Sprintf("data %d", rg.Pick(1, 5))}
					} else {
						choices = []string{"cancel", fmt.Sprintf("data %d", rg.Pick(1, 5))}
					}
				}
				emit(choices[rg.Intn(len(choices))])
			}
			if !r.finished {
				break
			}
		}
	}
	// promptness: once the context has fired, running everything that can run must finish the operation
	stuck := 0
	if r.opN > 0 && !r.finished && r.cancelled {
		for i := 0; i < 30 && !r.finished; i++ {
			ys := cosched.AtYield()
			if len(ys) == 0 {
				break
			}
			if ys[0] == r.main {
				emit("m")
			} else {
				emit("w")
			}
		}
		if !r.finished {
			stuck = 1
		}
	}
	o.Op(fmt.Sprintf("end # stuck=%d", stuck), "end", "")
	// release whatever is still blocked
	cosched.Disable()
	if r.cancel != nil {
		r.cancel()
	}
	f.mu.Lock()
	f.rAvail += 1000
	f.wAvail += 1000
	f.mu.Unlock()
	time.Sleep(time.Millisecond)
}

// Main is the body of every package's TestVerifCtx.
func Main(kind string, mk func(inner *Fake) Wrapped) {
	vh.RunShardsSerial(func(shard int, rg *vh.Rng, o *vh.Out, n int) {
		for i := 0; i < n; i++ {
			Run(o, fmt.Sprintf("%d.%d", shard, i), kind, mk, nil, rg)
		}
	}, func(cs []vh.Case, o *vh.Out) {
		for _, c := range cs {
			var ops []string
			for _, f := range c.Ops {
				ops = append(ops, strings.Join(f, " "))
			}
			Run(o, c.ID, kind, mk, ops, nil)
		}
	})
}
