// Package rdl is the shared read-deadline harness (C10): one scripted history of SetReadDeadline,
// data arrivals, reads and idle periods under the virtual clock, run against any connection type
// through a small adapter.
package rdl

import (
	"fmt"
	"strings"
	"time"

	"github.com/pion/transport/v3/verifshim/vh"
	"github.com/pion/transport/v3/verifshim/vtime"
)

// Conn is what the harness needs from a connection type.
type Conn interface {
	SetReadDeadline(t time.Time) error
	Read(b []byte) (int, error)
	// Deliver makes one message available to Read (and returns once it is: queued or handed over).
	Deliver(payload []byte)
	// Poke is called after every operation (e.g. a Bridge needs Tick to hand queued data to a reader).
	Poke()
	// Classify maps a Read error to "timeout", "closed" or "err:<text>".
	Classify(err error) string
	Close()
}

// Closable is implemented by the connection types whose Close keeps buffered data readable and then
// reports the end of the stream (packetio.Buffer, udp.Conn, the vnet UDP socket): for them the
// history may contain a Close.
type Closable interface {
	CloseKeepsData() bool
}

type runner struct {
	c        Conn
	pending  chan string // result of the read in flight
	inFlight bool
	closed   bool
}

func (r *runner) reader() {
	buf := make([]byte, 64)
	n, err := r.c.Read(buf)
	if err != nil {
		k := r.c.Classify(err)
		if k == "closed" {
			k = "eof"
		}
		r.pending <- k
		return
	}
	r.pending <- fmt.Sprintf("data%d", n)
}

// settle waits until the reader goroutine is parked (or gone) and every timer callback has finished.
func (r *runner) settle() {
	for i := 0; i < 3; i++ {
		r.c.Poke()
		vh.WaitParked("rdl.(*runner).reader", -1, 2*time.Second)
		vh.WaitParked(").timeout", 0, 2*time.Second)
	}
}

func (r *runner) collect() string {
	if !r.inFlight {
		return "-"
	}
	select {
	case res := <-r.pending:
		r.inFlight = false
		return "r=" + res
	default:
		return "blocked"
	}
}

// Op executes one operation: dl <T|zero> | dlb <T|zero> | arr | read | adv <dt ns> | close
func (r *runner) Op(f []string) string {
	switch f[0] {
	case "dl":
		if f[1] == "zero" {
			_ = r.c.SetReadDeadline(time.Time{})
		} else {
			_ = r.c.SetReadDeadline(vtime.Now().Add(time.Duration(vh.Atoi(f[1])) - time.Duration(vtime.SinceEpoch())))
		}
	case "dlb":
		// SetDeadline (read and write deadline at once) where the type has it
		t := time.Time{}
		if f[1] != "zero" {
			t = vtime.Now().Add(time.Duration(vh.Atoi(f[1])) - time.Duration(vtime.SinceEpoch()))
		}
		if sd, ok := r.c.(interface{ SetDeadline(time.Time) error }); ok {
			_ = sd.SetDeadline(t)
		} else {
			_ = r.c.SetReadDeadline(t)
		}
	case "close":
		if cl, ok := r.c.(Closable); ok && cl.CloseKeepsData() && !r.closed {
			r.closed = true
			r.c.Close()
		}
	case "arr":
		r.c.Deliver([]byte{1, 2, 3})
	case "read":
		if !r.inFlight {
			r.inFlight = true
			go r.reader()
		}
	case "adv":
		vtime.Advance(time.Duration(vh.Atoi(f[1])), r.settle)
	}
	r.settle()
	return r.collect()
}

// Gen produces a random history; times are virtual nanoseconds since the epoch.
func Gen(rg *vh.Rng, closable bool) []string {
	var ops []string
	now := 0
	n := 8 + rg.Intn(30)
	for i := 0; i < n; i++ {
		switch c := rg.Intn(100); {
		case c < 4 && closable:
			ops = append(ops, "close")
		case c < 25:
			kind := "dl"
			if rg.Chance(40) {
				kind = "dlb"
			}
			switch rg.Intn(5) {
			case 0:
				ops = append(ops, kind+" zero")
			case 1:
				ops = append(ops, fmt.Sprintf("%s %d", kind, now-rg.Pick(0, 1, 1000000)))
			default:
				ops = append(ops, fmt.Sprintf("%s %d", kind, now+rg.Pick(1, 1000000, 5000000, 2000000000)))
			}
		case c < 45:
			ops = append(ops, "arr")
		case c < 75:
			ops = append(ops, "read")
		default:
			dt := rg.Pick(0, 1, 999999, 1000000, 1000001, 5000000, 2000000000, 3000000000)
			now += dt
			ops = append(ops, fmt.Sprintf("adv %d", dt))
		}
	}
	return ops
}

// RunCase runs ops on a fresh connection and records them.
func RunCase(o *vh.Out, id, kind string, mk func() Conn, ops []string) {
	vtime.ResetClock()
	o.Case(id, kind)
	c := mk()
	r := &runner{c: c, pending: make(chan string, 1)}
	for _, op := range ops {
		o.Op(op, r.Op(strings.Fields(op)), "")
	}
	// release a read that is still blocked
	_ = c.SetReadDeadline(vtime.Now().Add(-time.Second))
	r.settle()
	if !r.closed {
		c.Close()
	}
	if r.inFlight {
		select {
		case <-r.pending:
		case <-time.After(200 * time.Millisecond):
		}
	}
}

// Main is the body of every package's TestVerifRDL.
func Main(kind string, mk func() Conn) {
	vh.RunShardsSerial(func(shard int, rg *vh.Rng, o *vh.Out, n int) {
		closable := kind == "buffer" || kind == "udpconn" || kind == "vnetudp"
		for i := 0; i < n; i++ {
			RunCase(o, fmt.Sprintf("%d.%d", shard, i), kind, mk, Gen(rg, closable))
		}
	}, func(cs []vh.Case, o *vh.Out) {
		for _, c := range cs {
			var ops []string
			for _, f := range c.Ops {
				ops = append(ops, strings.Join(f, " "))
			}
			RunCase(o, c.ID, kind, mk, ops)
		}
	})
}
