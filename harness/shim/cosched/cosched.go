// Package cosched is the controlled scheduler of the /verif harness (DESIGN.md E5).
// Sources rewritten by vrewrite call Yield(site) before their synchronisation operations.
// A goroutine started through Go (or registered with Register) is *managed*: at every Yield it
// stops and waits for a grant from the controller.  Unmanaged goroutines pass through Yield
// untouched, so rewritten code behaves normally outside controlled scenarios.
// The controller grants one goroutine at a time (Step) and then waits until every managed
// goroutine is at a yield point, has finished, or is parked in the runtime (Quiesce) — parking is
// read from runtime.Stack.
package cosched

import (
	"bytes"
	"fmt"
	"runtime"
	"sort"
	"strconv"
	"strings"
	"sync"
	"time"
)

type gstate struct {
	name    string
	goid    uint64
	site    string // yield site it is waiting at ("" = running / parked / done)
	grant   chan struct{}
	done    bool
	waiting bool
}

var (
	mu      sync.Mutex
	byGoid  = map[uint64]*gstate{}
	byName  = map[string]*gstate{}
	order   []string
	active  bool
	spawned = map[string]int{}
)

func goid() uint64 {
	var buf [64]byte
	n := runtime.Stack(buf[:], false)
	// "goroutine 123 [running]:"
	f := bytes.Fields(buf[:n])
	id, _ := strconv.ParseUint(string(f[1]), 10, 64)
	return id
}

// Reset forgets all managed goroutines and enables control.
func Reset() {
	mu.Lock()
	defer mu.Unlock()
	byGoid = map[uint64]*gstate{}
	byName = map[string]*gstate{}
	order = nil
	spawned = map[string]int{}
	active = true
}

// Disable turns control off: every blocked goroutine is released and Yield becomes a no-op.
func Disable() {
	mu.Lock()
	active = false
	for _, g := range byName {
		if g.waiting {
			g.waiting = false
			close(g.grant)
		}
	}
	mu.Unlock()
}

// Go starts f as a managed goroutine. The name is site, made unique by an ordinal. The goroutine
// first stops at the pseudo site "start".
func Go(site string, f func()) string {
	mu.Lock()
	if !active {
		mu.Unlock()
		go f()
		return ""
	}
	spawned[site]++
	name := fmt.Sprintf("%s/%d", site, spawned[site])
	g := &gstate{name: name}
	byName[name] = g
	order = append(order, name)
	mu.Unlock()
	ready := make(chan struct{})
	go func() {
		id := goid()
		mu.Lock()
		g.goid = id
		byGoid[id] = g
		mu.Unlock()
		close(ready)
		Yield("start")
		defer func() {
			mu.Lock()
			g.done = true
			g.site = ""
			mu.Unlock()
		}()
		f()
	}()
	<-ready
	return name
}

// Yield stops a managed goroutine until the controller grants it.
func Yield(site string) {
	mu.Lock()
	if !active {
		mu.Unlock()
		return
	}
	g := byGoid[goid()]
	if g == nil {
		mu.Unlock()
		return
	}
	g.site = site
	g.grant = make(chan struct{})
	g.waiting = true
	ch := g.grant
	mu.Unlock()
	<-ch
}

// Managed reports whether the calling goroutine is under control of the scheduler.
func Managed() bool {
	mu.Lock()
	defer mu.Unlock()
	return active && byGoid[goid()] != nil
}

// Name is the name of the calling goroutine if it is managed, "" otherwise.
func Name() string {
	mu.Lock()
	defer mu.Unlock()
	if g := byGoid[goid()]; active && g != nil {
		return g.name
	}
	return ""
}

// Pos describes where a managed goroutine is.
type Pos struct {
	Name  string
	State string // "at <site>", "done", "parked <wait state>", "running"
}

// parked wait states of the runtime in which a goroutine cannot proceed by itself
var parkedStates = map[string]bool{"chan receive": true, "chan send": true, "select": true, "semacquire": true,
	"sync.Cond.Wait": true, "sync.WaitGroup.Wait": true, "IO wait": true, "sync.Mutex.Lock": true,
	"sync.RWMutex.RLock": true, "sync.RWMutex.Lock": true, "sleep": true, "chan receive (nil chan)": true, "select (no cases)": true}

func stackStates() map[uint64]string {
	buf := make([]byte, 1<<20)
	for {
		n := runtime.Stack(buf, true)
		if n < len(buf) {
			buf = buf[:n]
			break
		}
		buf = make([]byte, 2*len(buf))
	}
	res := map[uint64]string{}
	for _, blk := range strings.Split(string(buf), "\n\n") {
		if !strings.HasPrefix(blk, "goroutine ") {
			continue
		}
		l := blk
		if i := strings.Index(l, "\n"); i >= 0 {
			l = l[:i]
		}
		f := strings.Fields(l)
		id, err := strconv.ParseUint(f[1], 10, 64)
		if err != nil {
			continue
		}
		a, b := strings.Index(l, "["), strings.LastIndex(l, "]")
		st := l[a+1 : b]
		if i := strings.Index(st, ","); i >= 0 {
			st = st[:i]
		}
		res[id] = st
	}
	return res
}

// Positions reports all managed goroutines in creation order.
func Positions() []Pos {
	ss := stackStates()
	mu.Lock()
	defer mu.Unlock()
	var out []Pos
	for _, n := range order {
		g := byName[n]
		switch {
		case g.done:
			out = append(out, Pos{n, "done"})
		case g.waiting:
			out = append(out, Pos{n, "at " + g.site})
		default:
			st, ok := ss[g.goid]
			if ok && parkedStates[st] {
				out = append(out, Pos{n, "parked " + st})
			} else {
				out = append(out, Pos{n, "running"})
			}
		}
	}
	return out
}

// Quiesce waits until no managed goroutine is running: each is at a yield point, done, or parked in
// the runtime (two consecutive observations must agree). It reports false on timeout.
func Quiesce(timeout time.Duration) bool {
	// a goroutine that is merely waiting for a processor (the machine may be saturated by other checks)
	// is not stuck: the caller's patience is multiplied before a position is reported as "running"
	deadline := time.Now().Add(10 * timeout)
	stable := 0
	for {
		ok := true
		for _, p := range Positions() {
			if p.State == "running" {
				ok = false
			}
		}
		if ok {
			stable++
			if stable >= 2 {
				return true
			}
		} else {
			stable = 0
		}
		if time.Now().After(deadline) {
			return false
		}
		runtime.Gosched()
		if !ok {
			time.Sleep(10 * time.Microsecond)
		}
	}
}

// Step grants the named goroutine (it must be at a yield point) and waits for quiescence.
func Step(name string, timeout time.Duration) bool {
	mu.Lock()
	g := byName[name]
	if g == nil || !g.waiting {
		mu.Unlock()
		return false
	}
	g.waiting = false
	g.site = ""
	close(g.grant)
	mu.Unlock()
	return Quiesce(timeout)
}

// AtYield lists the goroutines currently waiting for a grant, sorted by name.
func AtYield() []string {
	mu.Lock()
	defer mu.Unlock()
	var out []string
	for _, n := range order {
		if byName[n].waiting {
			out = append(out, n)
		}
	}
	sort.Strings(out)
	return out
}
