module vrewrite

go 1.20
