// vrewrite is the source-to-source pass of the /verif harness (DESIGN.md E5): it inserts
// cosched.Yield("<site>") before the synchronisation operations at which another goroutine's
// progress can matter — every X.Lock()/X.RLock() call statement, every blocking select (a select
// without default), every channel receive or send statement outside a select, every WaitGroup Wait
// — in the chosen functions of one Go file, and rewrites `go f(...)` statements into
// cosched.Go("<site>", func() { f(...) }).  It reads the working-tree file and writes the rewritten
// copy to stdout; the overlay maps the original path to it.  Stdlib only.
//
// usage: vrewrite -file path.go [-funcs A,B,(*T).M] [-cosched import/path]
//
// It also prints (with -skeleton) the synchronisation skeleton of each chosen function: the
// sequence of operation kinds in source order, which the Lean models are checked against.
package main

import (
	"bytes"
	"flag"
	"fmt"
	"go/ast"
	"go/format"
	"go/parser"
	"go/token"
	"os"
	"strings"
)

func funcName(fd *ast.FuncDecl) string {
	if fd.Recv == nil || len(fd.Recv.List) == 0 {
		return fd.Name.Name
	}
	t := fd.Recv.List[0].Type
	if s, ok := t.(*ast.StarExpr); ok {
		if id, ok := s.X.(*ast.Ident); ok {
			return "(*" + id.Name + ")." + fd.Name.Name
		}
	}
	if id, ok := t.(*ast.Ident); ok {
		return id.Name + "." + fd.Name.Name
	}
	return fd.Name.Name
}

// kindOf classifies a statement; "" = not a synchronisation operation we yield at.
func kindOf(s ast.Stmt) string {
	switch st := s.(type) {
	case *ast.SelectStmt:
		for _, c := range st.Body.List {
			if cc, ok := c.(*ast.CommClause); ok && cc.Comm == nil {
				return "" // has a default: never blocks
			}
		}
		return "select"
	case *ast.SendStmt:
		return "send"
	case *ast.ExprStmt:
		if u, ok := st.X.(*ast.UnaryExpr); ok && u.Op == token.ARROW {
			return "recv"
		}
		if call, ok := st.X.(*ast.CallExpr); ok {
			if sel, ok := call.Fun.(*ast.SelectorExpr); ok {
				switch sel.Sel.Name {
				case "Lock", "RLock":
					return "lock"
				case "Wait":
					return "wait"
				case "Add":
					return "wgadd"
				}
			}
		}
	case *ast.AssignStmt:
		if len(st.Rhs) == 1 {
			if u, ok := st.Rhs[0].(*ast.UnaryExpr); ok && u.Op == token.ARROW {
				return "recv"
			}
		}
	}
	return ""
}

var kinds = map[string]bool{}

type rewriter struct {
	file    string
	fn      string
	count   map[string]int
	skel    []string
	changed bool
}

func (r *rewriter) yield(kind string) ast.Stmt {
	r.count[kind]++
	site := fmt.Sprintf("%s:%s:%s#%d", r.file, r.fn, kind, r.count[kind])
	r.changed = true
	return &ast.ExprStmt{X: &ast.CallExpr{
		Fun:  &ast.SelectorExpr{X: ast.NewIdent("cosched"), Sel: ast.NewIdent("Yield")},
		Args: []ast.Expr{&ast.BasicLit{Kind: token.STRING, Value: fmt.Sprintf("%q", site)}},
	}}
}

func (r *rewriter) block(list []ast.Stmt) []ast.Stmt {
	var out []ast.Stmt
	for _, s := range list {
		if k := kindOf(s); k != "" && (len(kinds) == 0 || kinds[k]) {
			r.skel = append(r.skel, k)
			out = append(out, r.yield(k))
		}
		if g, ok := s.(*ast.GoStmt); ok && (len(kinds) == 0 || kinds["go"]) {
			r.count["go"]++
			site := fmt.Sprintf("%s:%s:go#%d", r.file, r.fn, r.count["go"])
			r.skel = append(r.skel, "go")
			r.changed = true
			// the body of `go func() { … }()` belongs to the function being instrumented
			if fl, ok := g.Call.Fun.(*ast.FuncLit); ok {
				r.skel = append(r.skel, "{")
				fl.Body.List = r.block(fl.Body.List)
				r.skel = append(r.skel, "}")
			}
			s = &ast.ExprStmt{X: &ast.CallExpr{
				Fun: &ast.SelectorExpr{X: ast.NewIdent("cosched"), Sel: ast.NewIdent("Go")},
				Args: []ast.Expr{
					&ast.BasicLit{Kind: token.STRING, Value: fmt.Sprintf("%q", site)},
					&ast.FuncLit{Type: &ast.FuncType{Params: &ast.FieldList{}}, Body: &ast.BlockStmt{List: []ast.Stmt{&ast.ExprStmt{X: g.Call}}}},
				},
			}}
		}
		r.inner(s)
		out = append(out, s)
	}
	return out
}

func (r *rewriter) inner(s ast.Stmt) {
	switch st := s.(type) {
	case *ast.BlockStmt:
		st.List = r.block(st.List)
	case *ast.IfStmt:
		st.Body.List = r.block(st.Body.List)
		if st.Else != nil {
			r.inner(st.Else)
		}
	case *ast.ForStmt:
		r.skel = append(r.skel, "loop{")
		st.Body.List = r.block(st.Body.List)
		r.skel = append(r.skel, "}")
	case *ast.RangeStmt:
		r.skel = append(r.skel, "loop{")
		st.Body.List = r.block(st.Body.List)
		r.skel = append(r.skel, "}")
	case *ast.SwitchStmt:
		for _, c := range st.Body.List {
			if cc, ok := c.(*ast.CaseClause); ok {
				cc.Body = r.block(cc.Body)
			}
		}
	case *ast.SelectStmt:
		for _, c := range st.Body.List {
			if cc, ok := c.(*ast.CommClause); ok {
				cc.Body = r.block(cc.Body)
			}
		}
	case *ast.LabeledStmt:
		r.inner(st.Stmt)
	case *ast.ExprStmt:
		// function literals passed to a call, e.g. once.Do(func() { … }): their bodies belong to this function
		if call, ok := st.X.(*ast.CallExpr); ok {
			for _, a := range call.Args {
				if fl, ok := a.(*ast.FuncLit); ok {
					fl.Body.List = r.block(fl.Body.List)
				}
			}
		}
	}
}

func main() {
	file := flag.String("file", "", "Go source file")
	funcs := flag.String("funcs", "", "comma separated function names, e.g. Read,(*Buffer).Write; empty = all")
	cos := flag.String("cosched", "github.com/pion/transport/v3/verifshim/cosched", "import path of the scheduler shim")
	skeleton := flag.Bool("skeleton", false, "print the synchronisation skeletons instead of the rewritten source")
	kindList := flag.String("kinds", "", "comma separated operation kinds to instrument (lock,select,send,recv,wait,go); empty = all")
	flag.Parse()
	for _, k := range strings.Split(*kindList, ",") {
		if k != "" {
			kinds[k] = true
		}
	}
	fset := token.NewFileSet()
	f, err := parser.ParseFile(fset, *file, nil, parser.ParseComments)
	if err != nil {
		fmt.Fprintln(os.Stderr, err)
		os.Exit(1)
	}
	want := map[string]bool{}
	for _, n := range strings.Split(*funcs, ",") {
		if n != "" {
			want[n] = true
		}
	}
	base := *file
	if i := strings.LastIndex(base, "/"); i >= 0 {
		base = base[i+1:]
	}
	changed := false
	for _, d := range f.Decls {
		fd, ok := d.(*ast.FuncDecl)
		if !ok || fd.Body == nil {
			continue
		}
		name := funcName(fd)
		if len(want) > 0 && !want[name] && !want[fd.Name.Name] {
			continue
		}
		r := &rewriter{file: base, fn: name, count: map[string]int{}}
		fd.Body.List = r.block(fd.Body.List)
		if *skeleton {
			fmt.Printf("%s: %s\n", name, strings.Join(r.skel, " "))
		}
		changed = changed || r.changed
	}
	if *skeleton {
		return
	}
	if changed {
		// add the import
		imp := &ast.ImportSpec{Path: &ast.BasicLit{Kind: token.STRING, Value: fmt.Sprintf("%q", *cos)}}
		added := false
		for _, d := range f.Decls {
			if gd, ok := d.(*ast.GenDecl); ok && gd.Tok == token.IMPORT {
				gd.Specs = append(gd.Specs, imp)
				if !gd.Lparen.IsValid() {
					gd.Lparen = gd.Pos()
				}
				added = true
				break
			}
		}
		if !added {
			f.Decls = append([]ast.Decl{&ast.GenDecl{Tok: token.IMPORT, Specs: []ast.Spec{imp}}}, f.Decls...)
		}
	}
	var buf bytes.Buffer
	if err := format.Node(&buf, fset, f); err != nil {
		fmt.Fprintln(os.Stderr, err)
		os.Exit(1)
	}
	os.Stdout.Write(buf.Bytes())
}
