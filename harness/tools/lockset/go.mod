module lockset

go 1.20
