// lockset extracts, from the working tree, every access to a guarded field (or package variable)
// named in the concurrency contract, together with the mutexes of the same receiver that are held at
// that point (C19).  Syntactic, intraprocedural, conservative: a lock counts as held from
// `recv.mu.Lock()` / `RLock()` to the matching `Unlock()` in the same block (a deferred unlock holds
// to the end of the function); branches are analysed with a copy of the held set and joined by
// intersection; function literals start with nothing held; helpers that the contract lists as
// "caller holds" start with that mutex held.  Output: a Lean table (numbers for names) and a JSON
// report of the undisciplined accesses.
package main

import (
	"encoding/json"
	"flag"
	"fmt"
	"go/ast"
	"go/parser"
	"go/token"
	"os"
	"path/filepath"
	"sort"
	"strings"
)

type typeContract struct {
	Pkg         string              `json:"pkg"`
	Type        string              `json:"type"`
	Guarded     map[string]string   `json:"guarded"`      // field -> mutex field
	CallerHolds map[string][]string `json:"caller_holds"` // method -> mutexes held on entry
	Exempt      []string            `json:"exempt"`       // functions that run before the object is shared
	Confined    map[string][]string `json:"confined"`     // field -> the only functions that may touch it (goroutine-confined)
}

type globalContract struct {
	Pkg  string `json:"pkg"`
	Var  string `json:"var"`
	Mode string `json:"mode"` // "atomic"
}

type contract struct {
	Types   []typeContract   `json:"types"`
	Globals []globalContract `json:"globals"`
}

type access struct {
	Pkg, Type, Field, Func string
	File                   string
	Line                   int
	Guard                  string
	Held                   []string
	Atomic                 bool
	OK                     bool
}

type held map[string]bool

func (h held) copy() held {
	c := held{}
	for k := range h {
		c[k] = true
	}
	return c
}

func inter(a, b held) held {
	c := held{}
	for k := range a {
		if b[k] {
			c[k] = true
		}
	}
	return c
}

type walker struct {
	fset   *token.FileSet
	tc     *typeContract
	recv   string
	fn     string
	file   string
	out    *[]access
	inLock bool
}

// lockCall recognises recv.<mu>.Lock()/RLock()/Unlock()/RUnlock().
func (w *walker) lockCall(e ast.Expr) (mu, op string) {
	call, ok := e.(*ast.CallExpr)
	if !ok {
		return "", ""
	}
	sel, ok := call.Fun.(*ast.SelectorExpr)
	if !ok {
		return "", ""
	}
	inner, ok := sel.X.(*ast.SelectorExpr)
	if !ok {
		return "", ""
	}
	id, ok := inner.X.(*ast.Ident)
	if !ok || id.Name != w.recv {
		return "", ""
	}
	switch sel.Sel.Name {
	case "Lock", "RLock":
		return inner.Sel.Name, "lock"
	case "Unlock", "RUnlock":
		return inner.Sel.Name, "unlock"
	}
	return "", ""
}

func (w *walker) recordConfined(n ast.Node, field string) {
	ok := false
	for _, f := range w.tc.Confined[field] {
		if f == w.fn {
			ok = true
		}
	}
	pos := w.fset.Position(n.Pos())
	hs := []string{}
	if ok {
		hs = []string{"confined:" + field}
	}
	*w.out = append(*w.out, access{Pkg: w.tc.Pkg, Type: w.tc.Type, Field: field, Func: w.fn, File: w.file, Line: pos.Line,
		Guard: "confined:" + field, Held: hs, OK: ok})
}

func (w *walker) record(n ast.Node, field string, h held) {
	guard := w.tc.Guarded[field]
	var hs []string
	for k := range h {
		hs = append(hs, k)
	}
	sort.Strings(hs)
	pos := w.fset.Position(n.Pos())
	*w.out = append(*w.out, access{Pkg: w.tc.Pkg, Type: w.tc.Type, Field: field, Func: w.fn, File: w.file, Line: pos.Line,
		Guard: guard, Held: hs, OK: h[guard]})
}

// expr records guarded field accesses inside an expression; function literals start with nothing held.
func (w *walker) expr(e ast.Node, h held) {
	if e == nil {
		return
	}
	ast.Inspect(e, func(n ast.Node) bool {
		switch x := n.(type) {
		case *ast.FuncLit:
			if pn := paramOfType(x.Type, w.tc.Type); pn != "" && pn != w.recv {
				// e.g. an option `func(t *T) …`: its parameter is the object
				w2 := *w
				w2.recv = pn
				w2.block(x.Body.List, held{})
				return false
			}
			w.block(x.Body.List, held{})
			return false
		case *ast.CallExpr:
			// a call of a "caller holds the mutex" helper on the receiver is an obligation at the call site
			if sel, ok := x.Fun.(*ast.SelectorExpr); ok {
				if id, ok := sel.X.(*ast.Ident); ok && id.Name == w.recv {
					for _, mu := range w.tc.CallerHolds[sel.Sel.Name] {
						var hs []string
						for k := range h {
							hs = append(hs, k)
						}
						sort.Strings(hs)
						pos := w.fset.Position(x.Pos())
						*w.out = append(*w.out, access{Pkg: w.tc.Pkg, Type: w.tc.Type, Field: "call " + sel.Sel.Name + "()", Func: w.fn, File: w.file,
							Line: pos.Line, Guard: mu, Held: hs, OK: h[mu]})
					}
				}
			}
		case *ast.SelectorExpr:
			if id, ok := x.X.(*ast.Ident); ok && id.Name == w.recv {
				if _, guarded := w.tc.Guarded[x.Sel.Name]; guarded {
					w.record(x, x.Sel.Name, h)
				}
				if _, conf := w.tc.Confined[x.Sel.Name]; conf {
					w.recordConfined(x, x.Sel.Name)
				}
			}
		}
		return true
	})
}

func terminates(list []ast.Stmt) bool {
	if len(list) == 0 {
		return false
	}
	switch s := list[len(list)-1].(type) {
	case *ast.ReturnStmt:
		return true
	case *ast.BranchStmt:
		return s.Tok == token.BREAK || s.Tok == token.CONTINUE || s.Tok == token.GOTO
	case *ast.ExprStmt:
		if c, ok := s.X.(*ast.CallExpr); ok {
			if id, ok := c.Fun.(*ast.Ident); ok && id.Name == "panic" {
				return true
			}
		}
	}
	return false
}

// block analyses statements in order and returns the held set after them.
func (w *walker) block(list []ast.Stmt, h held) held {
	h = h.copy()
	for _, st := range list {
		h = w.stmt(st, h)
	}
	return h
}

func (w *walker) stmt(st ast.Stmt, h held) held {
	switch s := st.(type) {
	case *ast.ExprStmt:
		if mu, op := w.lockCall(s.X); mu != "" {
			if op == "lock" {
				h[mu] = true
			} else {
				delete(h, mu)
			}
			return h
		}
		w.expr(s.X, h)
	case *ast.DeferStmt:
		if mu, op := w.lockCall(s.Call); mu != "" && op == "unlock" {
			return h // stays held to the end of the function
		}
		w.expr(s.Call, h)
	case *ast.GoStmt:
		if fl, ok := s.Call.Fun.(*ast.FuncLit); ok {
			w.block(fl.Body.List, held{})
			for _, a := range s.Call.Args {
				w.expr(a, h)
			}
		} else {
			w.expr(s.Call, h)
		}
	case *ast.BlockStmt:
		return w.block(s.List, h)
	case *ast.IfStmt:
		if s.Init != nil {
			h = w.stmt(s.Init, h)
		}
		w.expr(s.Cond, h)
		after := w.block(s.Body.List, h)
		thenTerm := terminates(s.Body.List)
		var afterElse held
		elseTerm := false
		switch e := s.Else.(type) {
		case nil:
			afterElse = h.copy()
		case *ast.BlockStmt:
			afterElse = w.block(e.List, h)
			elseTerm = terminates(e.List)
		default:
			afterElse = w.stmt(e, h.copy())
		}
		switch {
		case thenTerm && elseTerm:
			return h
		case thenTerm:
			return afterElse
		case elseTerm:
			return after
		}
		return inter(after, afterElse)
	case *ast.ForStmt:
		if s.Init != nil {
			h = w.stmt(s.Init, h)
		}
		w.expr(s.Cond, h)
		after := w.block(s.Body.List, h)
		if s.Post != nil {
			w.stmt(s.Post, after.copy())
		}
		return inter(h, after)
	case *ast.RangeStmt:
		w.expr(s.X, h)
		after := w.block(s.Body.List, h)
		return inter(h, after)
	case *ast.SwitchStmt:
		if s.Init != nil {
			h = w.stmt(s.Init, h)
		}
		w.expr(s.Tag, h)
		return w.clauses(s.Body.List, h)
	case *ast.TypeSwitchStmt:
		if s.Init != nil {
			h = w.stmt(s.Init, h)
		}
		w.stmt(s.Assign, h.copy())
		return w.clauses(s.Body.List, h)
	case *ast.SelectStmt:
		return w.clauses(s.Body.List, h)
	case *ast.LabeledStmt:
		return w.stmt(s.Stmt, h)
	case *ast.AssignStmt:
		for _, e := range s.Rhs {
			w.expr(e, h)
		}
		for _, e := range s.Lhs {
			w.expr(e, h)
		}
	case *ast.IncDecStmt:
		w.expr(s.X, h)
	case *ast.ReturnStmt:
		for _, e := range s.Results {
			w.expr(e, h)
		}
	case *ast.SendStmt:
		w.expr(s.Chan, h)
		w.expr(s.Value, h)
	case *ast.DeclStmt:
		w.expr(s.Decl, h)
	}
	return h
}

func (w *walker) clauses(list []ast.Stmt, h held) held {
	res := h.copy()
	for _, c := range list {
		var body []ast.Stmt
		switch cc := c.(type) {
		case *ast.CaseClause:
			for _, e := range cc.List {
				w.expr(e, h)
			}
			body = cc.Body
		case *ast.CommClause:
			if cc.Comm != nil {
				w.stmt(cc.Comm, h.copy())
			}
			body = cc.Body
		}
		after := w.block(body, h)
		if !terminates(body) {
			res = inter(res, after)
		}
	}
	return res
}

// paramOfType returns the name of the first parameter whose type is T or *T.
func paramOfType(ft *ast.FuncType, typ string) string {
	if ft == nil || ft.Params == nil {
		return ""
	}
	for _, f := range ft.Params.List {
		t := f.Type
		if st, ok := t.(*ast.StarExpr); ok {
			t = st.X
		}
		if id, ok := t.(*ast.Ident); ok && id.Name == typ && len(f.Names) > 0 {
			return f.Names[0].Name
		}
	}
	return ""
}

func recvOf(fd *ast.FuncDecl) (name, typ string) {
	if fd.Recv == nil || len(fd.Recv.List) == 0 {
		return "", ""
	}
	f := fd.Recv.List[0]
	t := f.Type
	if st, ok := t.(*ast.StarExpr); ok {
		t = st.X
	}
	id, ok := t.(*ast.Ident)
	if !ok {
		return "", ""
	}
	if len(f.Names) == 0 {
		return "_", id.Name
	}
	return f.Names[0].Name, id.Name
}

func main() {
	repo := flag.String("repo", "/repo", "module root")
	cpath := flag.String("contract", "", "contract json")
	leanOut := flag.String("lean", "", "Lean output file")
	flag.Parse()
	raw, err := os.ReadFile(*cpath)
	if err != nil {
		panic(err)
	}
	var c contract
	if err := json.Unmarshal(raw, &c); err != nil {
		panic(err)
	}
	var out []access
	fset := token.NewFileSet()
	pkgs := map[string]bool{}
	for _, t := range c.Types {
		pkgs[t.Pkg] = true
	}
	for _, g := range c.Globals {
		pkgs[g.Pkg] = true
	}
	var pkgList []string
	for p := range pkgs {
		pkgList = append(pkgList, p)
	}
	sort.Strings(pkgList)
	for _, pkg := range pkgList {
		files, _ := filepath.Glob(filepath.Join(*repo, pkg, "*.go"))
		sort.Strings(files)
		for _, fn := range files {
			if strings.HasSuffix(fn, "_test.go") {
				continue
			}
			f, err := parser.ParseFile(fset, fn, nil, 0)
			if err != nil {
				panic(err)
			}
			rel, _ := filepath.Rel(*repo, fn)
			for _, d := range f.Decls {
				fd, ok := d.(*ast.FuncDecl)
				if !ok || fd.Body == nil {
					continue
				}
				rname, rtype := recvOf(fd)
				for i := range c.Types {
					tc := &c.Types[i]
					if tc.Pkg != pkg {
						continue
					}
					if tc.Type != rtype {
						// not a method of the type: a parameter of the type plays the receiver; otherwise only
						// function literals inside (options, callbacks) that take the object are looked at
						isExempt := false
						for _, e := range tc.Exempt {
							if e == fd.Name.Name {
								isExempt = true
							}
						}
						if isExempt {
							continue
						}
						pn := paramOfType(fd.Type, tc.Type)
						if pn == "" {
							pn = "\x00none"
						}
						w := &walker{fset: fset, tc: tc, recv: pn, fn: fd.Name.Name, file: rel, out: &out}
						w.block(fd.Body.List, held{})
						continue
					}
					exempt := false
					for _, e := range tc.Exempt {
						if e == fd.Name.Name {
							exempt = true
						}
					}
					if exempt {
						continue
					}
					h := held{}
					for _, m := range tc.CallerHolds[fd.Name.Name] {
						h[m] = true
					}
					w := &walker{fset: fset, tc: tc, recv: rname, fn: fd.Name.Name, file: rel, out: &out}
					w.block(fd.Body.List, h)
				}
				// package variables that must only be touched through sync/atomic
				for _, g := range c.Globals {
					if g.Pkg != pkg {
						continue
					}
					ast.Inspect(fd.Body, func(n ast.Node) bool {
						if call, ok := n.(*ast.CallExpr); ok {
							if sel, ok := call.Fun.(*ast.SelectorExpr); ok {
								if id, ok := sel.X.(*ast.Ident); ok && id.Name == "atomic" {
									for _, a := range call.Args {
										if u, ok := a.(*ast.UnaryExpr); ok && u.Op == token.AND {
											if vid, ok := u.X.(*ast.Ident); ok && vid.Name == g.Var {
												pos := fset.Position(vid.Pos())
												out = append(out, access{Pkg: pkg, Type: "(package)", Field: g.Var, Func: fd.Name.Name, File: rel,
													Line: pos.Line, Guard: "atomic", Atomic: true, OK: true})
											}
										}
									}
									return false
								}
							}
						}
						if id, ok := n.(*ast.Ident); ok && id.Name == g.Var && id.Obj != nil && id.Obj.Kind == ast.Var {
							pos := fset.Position(id.Pos())
							out = append(out, access{Pkg: pkg, Type: "(package)", Field: g.Var, Func: fd.Name.Name, File: rel,
								Line: pos.Line, Guard: "atomic", OK: false})
						}
						return true
					})
				}
			}
		}
	}
	// numbering: guards and locks as naturals
	names := map[string]int{}
	num := func(s string) int {
		if v, ok := names[s]; ok {
			return v
		}
		names[s] = len(names) + 1
		return names[s]
	}
	var b strings.Builder
	b.WriteString("/- GENERATED by harness/tools/lockset from the working tree of /repo on every run. Do not edit. -/\n")
	b.WriteString("namespace TV.Gen.Lockset\n\n")
	b.WriteString("/-- one access to a guarded field: the guard it needs and the guards held there (names as numbers; 0 = through sync/atomic) -/\n")
	b.WriteString("structure Access where\n  guard : Nat\n  held : List Nat\nderiving Repr, DecidableEq\n\n")
	b.WriteString("def table : List Access := [\n")
	for i, a := range out {
		g := num(a.Pkg + "." + a.Type + "." + a.Guard)
		var hs []string
		if a.Atomic {
			hs = append(hs, fmt.Sprint(g))
		}
		for _, hname := range a.Held {
			hs = append(hs, fmt.Sprint(num(a.Pkg+"."+a.Type+"."+hname)))
		}
		sep := ","
		if i == len(out)-1 {
			sep = ""
		}
		fmt.Fprintf(&b, "  ⟨%d, [%s]⟩%s  -- %s %s.%s in %s (%s:%d)\n", g, strings.Join(hs, ", "), sep, a.Pkg, a.Type, a.Field, a.Func, a.File, a.Line)
	}
	b.WriteString("]\n\n")
	fmt.Fprintf(&b, "def size : Nat := %d\n\nend TV.Gen.Lockset\n", len(out))
	if *leanOut != "" {
		if err := os.WriteFile(*leanOut, []byte(b.String()), 0o644); err != nil {
			panic(err)
		}
	}
	var bad []access
	for _, a := range out {
		if !a.OK {
			bad = append(bad, a)
		}
	}
	rep, _ := json.MarshalIndent(map[string]interface{}{"accesses": len(out), "undisciplined": bad}, "", " ")
	fmt.Println(string(rep))
}
