"""Generic flow for properties decided by: Lean theorem (model refines spec) + differential
correspondence of the model with the implementation on generated operation sequences."""
import concurrent.futures as cf
import json
import os
import re
import sys
import time

from . import core
from .core import log


class Cfg:
    """per-property configuration; see props.py"""

    def __init__(self, **kw):
        self.prop = kw["prop"]
        self.lean_targets = kw["lean_targets"]
        self.pkg = kw["pkg"]                       # package dir under /repo that hosts the harness
        self.inpkg = kw.get("inpkg", self.pkg)     # harness/inpkg/<dir>
        self.files = kw.get("files")               # harness files (None = all in dir)
        self.wb_files = kw.get("wb_files", [])     # white-box files (dropped if they do not compile)
        self.run = kw["run"]                       # go test -run pattern
        self.component = kw["component"]           # driver component
        self.driver_args = kw.get("driver_args", [])
        self.nontrivial = set(kw["nontrivial"])
        self.rule = kw["rule"]
        self.quick_n = kw["quick_n"]
        self.thorough_n = kw["thorough_n"]
        self.shards = kw.get("shards", 16)
        self.env = kw.get("env", {})
        self.tags = kw.get("tags")
        self.extra_overlay = kw.get("extra_overlay", lambda: {})
        self.known_match = kw.get("known_match", lambda rep: None)
        self.trusted = kw["trusted"]
        self.assumptions = kw["assumptions"]
        self.variants = kw.get("variants", [dict()])  # e.g. build-tag variants; each dict(tags=, env=, overlay=)
        self.timeout = kw.get("timeout", 900)
        # op lines that carry the implementation's own observation to a model-independent judge are judged even after an earlier difference
        self.always_judge = tuple(kw.get("always_judge", ("end",)))
        self.search_n = kw.get("search_n", self.quick_n * 10)
        self.design_ref = kw.get("design_ref", "")
        self.technique = kw.get("technique", "")
        self.level_text = kw.get("level_text", "")
        self.level_note = kw.get("level_note", "")


def read_lines(p):
    with open(p) as f:
        return f.read().split("\n")[:-1] if os.path.getsize(p) else []


def split_fields(line):
    return [x.strip() for x in line.split(" | ")]


class Outcome:
    def __init__(self):
        self.cases = 0
        self.ops = 0
        self.spec_viol = []      # (shard, caseno, lineidx, opsofcase, impl, spec)
        self.l1 = []
        self.l2 = []
        self.hashes = set()
        self.nontrivial_hashes = set()
        self.tagcount = {}
        self.outkinds = {}
        self.samples = []
        self.errors = []


def spec_admits(sout, iout):
    """spec column: alternatives separated by ';'. An alternative is a literal output, or
    `fresh:<ip>:<lo>-<hi>:!p1,p2,...` = `ok <ip>:<p>` for any port lo <= p <= hi not in the excluded list."""
    for alt in sout.split(";"):
        if alt == iout:
            return True
        if alt.startswith("fresh:"):
            _, ip, rng, excl = alt.split(":", 3)
            lo, hi = rng.split("-")
            bad = set(x for x in excl[1:].split(",") if x)
            m = re.fullmatch(r"ok ([0-9.]+):(\d+)", iout)
            if m and m.group(1) == ip and int(lo) <= int(m.group(2)) <= int(hi) and m.group(2) not in bad:
                return True
        if " g*" in alt or " g!" in alt:
            # token pattern: `g*` matches any channel generation gN, `g!k` any generation other than k
            at, it = alt.split(" "), iout.split(" ")
            if len(at) == len(it) and all(
                    (a == b) or (a == "g*" and re.fullmatch(r"g\d+", b)) or
                    (a.startswith("g!") and re.fullmatch(r"g\d+", b) and b[1:] != a[2:]) for a, b in zip(at, it)):
                return True
        if alt.startswith("anyip:"):
            # anyip:<net>/<bits>:!ip1,ip2  = `ok <ip>` for any address of the subnet not in the excluded list
            _, cidr, excl = alt.split(":", 2)
            netip, bits = cidr.split("/")
            bad = set(x for x in excl[1:].split(",") if x)
            m = re.fullmatch(r"ok ([0-9]+\.[0-9]+\.[0-9]+\.[0-9]+)", iout)
            if m and m.group(1) not in bad:
                def num(x):
                    a = [int(y) for y in x.split(".")]
                    return (a[0] << 24) | (a[1] << 16) | (a[2] << 8) | a[3]
                sh = 32 - int(bits)
                if num(m.group(1)) >> sh == num(netip) >> sh:
                    return True
    return False


def compare_shard(cfg, ops_p, impl_p, model_p, oc, tag):
    ops, impl, model = read_lines(ops_p), read_lines(impl_p), read_lines(model_p)
    if not (len(ops) == len(impl) == len(model)):
        oc.errors.append("%s: line counts differ ops=%d impl=%d model=%d" % (tag, len(ops), len(impl), len(model)))
    n = min(len(ops), len(impl), len(model))
    start = None

    def close_case(end):
        if start is None:
            return
        text = "\n".join(ops[start:end])
        h = core.sha(text)
        oc.cases += 1
        oc.hashes.add(h)
        if case_tags & cfg.nontrivial:
            oc.nontrivial_hashes.add(h)
        if case_tags & cfg.nontrivial:
            # keep the three cases with the richest set of model branches as samples
            score = len(case_tags)
            if len(oc.samples) < 3 or score > min(x["_score"] for x in oc.samples):
                oc.samples.append(dict(ops=ops[start:min(end, start + 40)], impl=impl[start:min(end, start + 40)],
                                       tags=sorted(case_tags), _score=score))
                oc.samples.sort(key=lambda x: -x["_score"])
                del oc.samples[3:]

    case_tags = set()
    case_failed = False
    case_l2 = False
    for i in range(n):
        if ops[i].startswith("case "):
            close_case(i)
            start, case_tags, case_failed, case_l2 = i, set(), False, False
            continue
        oc.ops += 1
        fi, fm = split_fields(impl[i]), split_fields(model[i])
        iout = fi[0]
        ist = fi[1] if len(fi) > 1 else "-"
        mout = fm[0]
        mst = fm[1] if len(fm) > 1 else "-"
        sout = fm[2] if len(fm) > 2 else mout
        tags = fm[3].split() if len(fm) > 3 and fm[3] else []
        for t in tags:
            case_tags.add(t)
            oc.tagcount[t] = oc.tagcount.get(t, 0) + 1
        k = iout.split(" ")[0]
        oc.outkinds[k] = oc.outkinds.get(k, 0) + 1
        if case_failed and not ops[i].startswith(cfg.always_judge):
            continue
        if case_failed:
            # the closing judgement of a case looks at the implementation's own final observation and does
            # not depend on the recorder: it is evaluated even after an earlier difference
            if sout != "*" and not spec_admits(sout, iout):
                oc.spec_viol.append((tag, start, i, iout, sout))
            continue
        if sout != "*" and not spec_admits(sout, iout):
            oc.spec_viol.append((tag, start, i, iout, sout))
            case_failed = True
        elif iout != mout:
            oc.l1.append((tag, start, i, iout, mout))
            case_failed = True
        elif ist != "-" and mst != "-" and ist != mst:
            # internal state differs while the answers still agree: record it once per case and keep
            # judging the answers (the recorder is still in step with what the implementation did)
            if not case_l2:
                oc.l2.append((tag, start, i, ist, mst))
                case_l2 = True
    close_case(n)


def case_slice(ops, start):
    end = start + 1
    while end < len(ops) and not ops[end].startswith("case "):
        end += 1
    return ops[start:end]


class Runner:
    def __init__(self, cfg, tier, seed, work):
        self.cfg, self.tier, self.seed, self.work = cfg, tier, seed, work
        self.wb = True
        self.build_notes = []

    def overlay(self, variant, wb):
        m = core.shim_overlay()
        names = None
        pkg = variant.get("pkg", self.cfg.pkg)
        inpkg = variant.get("inpkg", variant.get("pkg", self.cfg.inpkg))
        wb_files = variant.get("wb_files", self.cfg.wb_files)
        d = os.path.join(core.HARNESS, "inpkg", inpkg)
        all_files = sorted(f for f in os.listdir(d) if f.endswith(".go"))
        files = variant.get("files", self.cfg.files)
        names = [f for f in all_files if (files is None or f in files or f in wb_files)]
        if not wb:
            names = [f for f in names if f not in wb_files]
        m.update(core.inpkg_overlay(pkg, names, inpkg))
        m.update(self.cfg.extra_overlay())
        m.update(variant.get("overlay", {}))
        if "overlay_fn" in variant:
            m.update(variant["overlay_fn"](self.work))
        return core.write_overlay(self.work, m)

    def harness(self, outdir, n, variant, replay=None, seed=None):
        os.makedirs(outdir, exist_ok=True)
        env = dict(self.cfg.env)
        env.update(variant.get("env", {}))
        env.update(VERIF_OUT=outdir, VERIF_SEED=self.seed if seed is None else seed, VERIF_N=n,
                   VERIF_SHARDS=self.cfg.shards, VERIF_TIER=self.tier)
        if replay:
            env["VERIF_REPLAY"] = replay
        pkg, run = variant.get("pkg", self.cfg.pkg), variant.get("run", self.cfg.run)
        rc, out, dt = core.go_test(self.work, self.overlay(variant, self.wb), pkg, run, env,
                                   tags=variant.get("tags", self.cfg.tags), timeout=self.cfg.timeout * (4 if self.tier == 'thorough' else 1))
        if rc != 0 and self.wb and variant.get("wb_files", self.cfg.wb_files) and ("[build failed]" in out or "[setup failed]" in out):
            # broken L2 tie: the white-box file no longer compiles against the tree; L1 only
            self.build_notes.append("white-box harness does not build against this tree; L1 (exported API) only:\n" + out[-1500:])
            self.wb = False
            rc, out, dt = core.go_test(self.work, self.overlay(variant, False), pkg, run, env,
                                       tags=variant.get("tags", self.cfg.tags), timeout=self.cfg.timeout * (4 if self.tier == 'thorough' else 1))
        return rc, out

    def drive(self, outdir, variant=None):
        """run the Lean driver on every ops-*.txt in outdir"""
        component = (variant or {}).get("component", self.cfg.component)
        dargs = (variant or {}).get("driver_args", self.cfg.driver_args)
        shards = sorted(f[4:-4] for f in os.listdir(outdir) if f.startswith("ops-") and f.endswith(".txt"))

        def one(s):
            return core.run_driver(component, os.path.join(outdir, "ops-%s.txt" % s),
                                   os.path.join(outdir, "model-%s.txt" % s), dargs)
        with cf.ThreadPoolExecutor(16) as ex:
            res = list(ex.map(one, shards))
        errs = ["driver shard %s rc=%d %s" % (s, rc, err[-500:]) for s, (rc, err) in zip(shards, res) if rc != 0]
        return shards, errs

    def run_batch(self, outdir, n, variant, oc, seed=None):
        t0 = time.time()
        rc, out = self.harness(outdir, n, variant, seed=seed)
        t1 = time.time()
        if rc != 0:
            oc.errors.append("go harness failed (rc=%d):\n%s" % (rc, out[-3000:]))
            return
        shards, errs = self.drive(outdir, variant)
        log("[%s] batch %s: harness %.1fs, model driver %.1fs" % (self.cfg.prop, os.path.basename(outdir), t1 - t0, time.time() - t1))
        oc.errors += errs
        for s in shards:
            compare_shard(self.cfg, os.path.join(outdir, "ops-%s.txt" % s), os.path.join(outdir, "impl-%s.txt" % s),
                          os.path.join(outdir, "model-%s.txt" % s), oc, "%s/%s" % (os.path.basename(outdir), s))

    def replay_case(self, case_ops, variant, sub="rp"):
        """run one case (list of ops lines) on impl and model; returns Outcome"""
        d = self.work.path(sub)
        import shutil
        shutil.rmtree(d, ignore_errors=True)
        os.makedirs(d)
        rp = os.path.join(d, "replay-ops.txt")
        with open(rp, "w") as f:
            f.write("\n".join(case_ops) + "\n")
        oc = Outcome()
        rc, out = self.harness(d, 1, variant, replay=rp)
        if rc != 0:
            oc.errors.append("replay harness failed:\n" + out[-2000:])
            return oc, d
        shards, errs = self.drive(d, variant)
        oc.errors += errs
        for s in shards:
            compare_shard(self.cfg, os.path.join(d, "ops-%s.txt" % s), os.path.join(d, "impl-%s.txt" % s),
                          os.path.join(d, "model-%s.txt" % s), oc, "rp/" + s)
        return oc, d

    def shrink(self, case_ops, variant, kind, budget=30):
        """delta debugging on the op lines of one case; keeps the case line. kind in spec|l1|l2"""
        def bad(ops):
            oc, _ = self.replay_case(ops, variant)
            if oc.errors:
                return False
            return bool({"spec": oc.spec_viol, "l1": oc.l1 or oc.spec_viol, "l2": oc.l2 or oc.l1 or oc.spec_viol}[kind])
        head, body = case_ops[0], list(case_ops[1:])
        t_start = time.time()
        if not bad([head] + body):
            return case_ops, False
        # a case whose single replay is slow (very long histories) is reported as it is
        if time.time() - t_start > 20:
            return case_ops, True
        # drop everything after the failing line first (cheap): binary search on prefix length
        lo, hi = 1, len(body)
        while lo < hi and budget > 0:
            mid = (lo + hi) // 2
            budget -= 1
            if bad([head] + body[:mid]):
                hi = mid
            else:
                lo = mid + 1
        body = body[:hi]
        chunk = max(1, len(body) // 2)
        while chunk >= 1 and budget > 0:
            i = 0
            progressed = False
            while i < len(body) and budget > 0:
                cand = body[:i] + body[i + chunk:]
                budget -= 1
                if cand and bad([head] + cand):
                    body = cand
                    progressed = True
                else:
                    i += chunk
            if chunk == 1 and not progressed:
                break
            chunk = max(1, chunk // 2) if chunk > 1 else (1 if progressed else 0)
        return [head] + body, True


def run_check(cfg, tier, seed):
    t0 = time.time()
    work = core.Work(cfg.prop)
    try:
        return _run_check(cfg, tier, seed, work, t0)
    finally:
        work.cleanup()


def corpus_cases(prop):
    d = os.path.join(core.VERIF, "corpus", prop)
    out = []
    if os.path.isdir(d):
        for fn in sorted(os.listdir(d)):
            if fn.endswith(".ops"):
                lines = [l for l in open(os.path.join(d, fn)).read().split("\n") if l and not l.startswith("#")]
                out.append((fn, lines))
    return out


def corpus_variant(prop, name):
    first = open(os.path.join(core.VERIF, "corpus", prop, name)).readline()
    if first.startswith("# variant="):
        return first.strip().split("=", 1)[1]
    return None


def _run_check(cfg, tier, seed, work, t0):
    prop = cfg.prop
    violations = []      # (kind, replay path, known-id or None, text)
    notes = []
    # ---- 1/2: Lean obligations
    ok, out = core.lake_build(cfg.lean_targets + ["vdrv"])
    lean_broken = None
    if not ok:
        lean_broken = out[-4000:]
        notes.append("lake build failed")
        # the driver alone may still build (it does not import Props)
        okd, outd = core.lake_build(["vdrv"])
        if not okd:
            log("FATAL: the model driver does not build:\n" + outd[-3000:])
    rows, araw, arc = ([], "", 1)
    if ok:
        rows, araw, arc = core.audit(prop)
    tokens = core.forbidden_token_scan()
    leanchecker = None
    if ok and tier == "thorough":
        # independent re-check of the compiled property modules by leanchecker
        import subprocess
        lk = core._lake_lock()
        try:
            pc = subprocess.run(["lake", "env", "leanchecker"] + cfg.lean_targets, cwd=core.LEAN, stdout=subprocess.PIPE,
                                stderr=subprocess.STDOUT, text=True, timeout=3000)
        finally:
            lk.close()
        leanchecker = dict(rc=pc.returncode, tail=pc.stdout[-300:])
        if pc.returncode != 0:
            lean_broken = "leanchecker rejected the compiled modules:\n" + pc.stdout[-2000:]
    obligations = len(rows) if rows else len(
        __import__("re").findall(r"^#print axioms", open(os.path.join(core.LEAN, "Audit", prop + ".lean")).read(), __import__("re").M))
    discharged = sum(1 for r in rows if r["ok"]) if not tokens else 0
    bad_thms = [r for r in rows if not r["ok"]]
    log("[%s] lean: build=%s obligations=%d discharged=%d forbidden-tokens=%d" % (prop, ok, obligations, discharged, len(tokens)))

    # ---- 3/4: correspondence
    n = cfg.quick_n if tier == "quick" else cfg.thorough_n
    oc = Outcome()
    runner = Runner(cfg, tier, seed, work)
    vi = 0
    for variant in cfg.variants:
        vi += 1
        # corpus first
        for name, lines in corpus_cases(prop):
            cv = corpus_variant(prop, name)
            if cv is not None and cv != variant.get("name", ""):
                continue
            c, _ = runner.replay_case(lines, variant, sub="corpus")
            for fld in ("spec_viol", "l1", "l2", "errors"):
                getattr(oc, fld).extend([("corpus:" + name,) + tuple(x[1:]) if fld != "errors" else x for x in getattr(c, fld)])
            oc.cases += c.cases
            oc.ops += c.ops
            oc.hashes |= c.hashes
            oc.nontrivial_hashes |= c.nontrivial_hashes
        runner.run_batch(work.path("v%d" % vi), n, variant, oc)
    broken_tie = bool(oc.l1 or oc.l2 or oc.errors or runner.build_notes)
    searched = False
    if (lean_broken or bad_thms or tokens or broken_tie) and not oc.spec_viol and tier == "quick":
        # ---- search for a concrete failing input with the thorough budget and other seeds
        searched = True
        log("[%s] obligation or correspondence broken without a concrete failing input yet: searching (thorough budget)" % prop)
        for k, variant in enumerate(cfg.variants):
            for s2 in (seed + 1,):
                if oc.spec_viol:
                    break
                runner.run_batch(work.path("s%d-%d" % (k, s2)), cfg.search_n, variant, oc, seed=s2)

    # ---- 5: verdict
    known = [k for k in core.load_known() if k.get("property") == prop and k.get("status") == "open"]
    printed_known = set()
    exit_code = 0

    def shard_ops(tag):
        d, s = tag.split("/")
        return read_lines(work.path(d, "ops-%s.txt" % s))

    def variant_of(tag):
        """the variant a shard directory belongs to: v<k>/… (main batches), s<k>-<seed>/… (search batches)"""
        d = tag.split("/")[0]
        try:
            if d.startswith("v"):
                return cfg.variants[int(d[1:]) - 1]
            if d.startswith("s"):
                return cfg.variants[int(d[1:].split("-")[0])]
        except (ValueError, IndexError):
            pass
        return cfg.variants[0]

    def get_case(tag, start):
        if tag.startswith("corpus:"):
            return dict(corpus_cases(prop))[tag[7:]]
        return case_slice(shard_ops(tag), start)

    seen_sig = set()
    for (tag, start, i, iout, sout) in oc.spec_viol[:200]:
        case = get_case(tag, start)
        variant = variant_of(tag)
        small, confirmed = (case, True)
        if len(violations) < int(os.environ.get('VERIF_MAXVIOL', '3')):
            small, confirmed = runner.shrink(case, variant, "spec")
        c2, d2 = runner.replay_case(small, variant)
        rep = dict(property=prop, kind="spec-violation", ops=small, seed=seed, tier=tier,
                   impl=read_lines(os.path.join(d2, "impl-0.txt")) if os.path.exists(os.path.join(d2, "impl-0.txt")) else [],
                   model=read_lines(os.path.join(d2, "model-0.txt")) if os.path.exists(os.path.join(d2, "model-0.txt")) else [],
                   first_failure=dict(impl=iout, spec=sout, line=i - start),
                   how_to_replay="./check %s --replay <this file>" % prop, variant=variant.get("name", ""),
                   reproduced_on_replay=bool(c2.spec_viol))
        kid = cfg.known_match(rep)
        if kid and any(k["id"] == kid for k in known):
            if kid not in printed_known:
                printed_known.add(kid)
                kf = next(k for k in known if k["id"] == kid)
                log("KNOWN-FINDING: property=%s %s" % (prop, kf["description"]))
            continue
        sig = json.dumps(small)
        if sig in seen_sig:
            continue
        seen_sig.add(sig)
        p = core.write_replay(prop, rep)
        violations.append(("spec", p))
        log("VIOLATION property=%s replay=%s" % (prop, p))
        exit_code = 1
        if len(violations) >= int(os.environ.get('VERIF_MAXVIOL', '3')):
            break

    if not violations:
        if lean_broken or bad_thms or tokens or broken_tie:
            # no concrete failing input: report the broken obligation / correspondence
            first = None
            kind = None
            if oc.l1:
                kind, first = "L1", oc.l1[0]
            elif oc.l2:
                kind, first = "L2", oc.l2[0]
            rep = dict(property=prop, kind="no-failing-input-found", seed=seed, tier=tier, searched_with_thorough_budget=searched)
            if lean_broken:
                rep["broken_obligation"] = dict(targets=cfg.lean_targets, lake_output_tail=lean_broken)
            if bad_thms:
                rep["bad_theorems"] = bad_thms
            if tokens:
                rep["forbidden_tokens"] = tokens
            if runner.build_notes:
                rep["harness_build"] = runner.build_notes
            if oc.errors:
                rep["harness_errors"] = oc.errors[:5]
            if first:
                tag, start, i, a, b = first
                case = get_case(tag, start)
                small, _ = runner.shrink(case, variant_of(tag), "l1" if kind == "L1" else "l2")
                c2, d2 = runner.replay_case(small, variant_of(tag))
                rep["broken_correspondence"] = dict(
                    component=cfg.component, level=kind, first_differing_step=i - start, impl=a, model=b, ops=small,
                    impl_out=read_lines(os.path.join(d2, "impl-0.txt")) if os.path.exists(os.path.join(d2, "impl-0.txt")) else [],
                    model_out=read_lines(os.path.join(d2, "model-0.txt")) if os.path.exists(os.path.join(d2, "model-0.txt")) else [])
            p = core.write_replay(prop, rep)
            violations.append(("nofail", p))
            log("VIOLATION property=%s replay=%s no-failing-input-found" % (prop, p))
            exit_code = 1

    wall = time.time() - t0
    ev = dict(
        property_id=prop, tier=tier, seed=seed, level="proof", wall_s=round(wall, 2),
        violations=len(violations),
        coverage=dict(
            obligations=obligations, discharged=discharged,
            checker_cmd="cd /verif/lean && lake build %s && lake env lean Audit/%s.lean  (kernel check + #print axioms; thorough tier adds lake env leanchecker)" % (" ".join(cfg.lean_targets), prop),
            trusted_base=cfg.trusted,
            theorems=[dict(name=r["theorem"], axioms=r["axioms"]) for r in rows],
            evaluations=oc.cases, distinct_nontrivial=len(oc.nontrivial_hashes), distinct=len(oc.hashes),
            operations=oc.ops,
            rule=cfg.rule,
            samples=[{k: v for k, v in x.items() if k != '_score'} for x in oc.samples[:3]] if oc.samples else [dict(note="no non-trivial sample in this run")],
            model_branch_tags=dict(sorted(oc.tagcount.items())),
            impl_output_kinds=dict(sorted(oc.outkinds.items())),
            correspondence=dict(l1_differences=len(oc.l1), l2_differences=len(oc.l2), spec_rejections=len(oc.spec_viol),
                                harness_errors=len(oc.errors), white_box=runner.wb),
            known_findings_seen=sorted(printed_known),
            variants=len(cfg.variants),
            leanchecker=leanchecker,
        ),
        assumptions=cfg.assumptions,
    )
    core.write_evidence(prop, ev)
    log("[%s] %s tier=%s seed=%d cases=%d (distinct nontrivial %d) ops=%d l1=%d l2=%d spec=%d errors=%d wall=%.1fs" % (
        prop, "PASS" if exit_code == 0 else "FAIL", tier, seed, oc.cases, len(oc.nontrivial_hashes), oc.ops,
        len(oc.l1), len(oc.l2), len(oc.spec_viol), len(oc.errors), wall))
    if oc.errors:
        log("harness errors:\n" + "\n".join(oc.errors[:3]))
    return exit_code


def run_replay(cfg, path, seed):
    """replay a replay file (or a plain ops file) on implementation and model and print both"""
    work = core.Work(cfg.prop + "-replay")
    try:
        if path.endswith(".json"):
            rep = json.load(open(path))
            ops = rep.get("ops") or rep.get("broken_correspondence", {}).get("ops")
            if not ops:
                log("replay file names a broken obligation, no operation sequence to run:")
                log(json.dumps(rep, indent=1)[:3000])
                return 1
        else:
            ops = [l for l in open(path).read().split("\n") if l and not l.startswith("#")]
        r = Runner(cfg, "quick", seed, work)
        vname = rep.get("variant", "") if path.endswith(".json") else ""
        variant = next((v for v in cfg.variants if v.get("name", "") == vname), cfg.variants[0])
        # a plain ops file may name its variant in a first line `# variant=<name>`
        if not path.endswith(".json"):
            first = open(path).readline()
            if first.startswith("# variant="):
                vn = first.strip().split("=", 1)[1]
                variant = next((v for v in cfg.variants if v.get("name", "") == vn), variant)
        oc, d = r.replay_case(ops, variant)
        imp = read_lines(os.path.join(d, "impl-0.txt")) if os.path.exists(os.path.join(d, "impl-0.txt")) else []
        mod = read_lines(os.path.join(d, "model-0.txt")) if os.path.exists(os.path.join(d, "model-0.txt")) else []
        for a, b, c in zip(ops, imp, mod):
            log("%-30s impl: %-40s model|spec: %s" % (a, b, c))
        for e in oc.errors:
            log(e)
        if oc.spec_viol:
            log("VIOLATION property=%s replay=%s" % (cfg.prop, path))
            return 1
        if oc.l1 or oc.l2 or oc.errors:
            log("correspondence differs on this replay (no spec violation)")
            return 1
        log("replay passes")
        return 0
    finally:
        work.cleanup()
