"""Shared machinery of the /verif checks (python3 stdlib only).

A check (see DESIGN.md section 5) is:
  1. lake build of the property's Lean modules + axiom audit      -> obligations / discharged
  2. Go harness injected into /repo's working tree by overlay     -> ops + implementation outputs
  3. Lean driver (model + spec machine) on the same ops           -> model outputs, spec outputs, tags
  4. comparison impl vs spec (violation) and impl vs model (correspondence)
  5. verdict, evidence file, replay file
"""
import fcntl
import hashlib
import json
import os
import re
import shutil
import subprocess
import sys
import time

VERIF = os.path.dirname(os.path.dirname(os.path.abspath(__file__)))
REPO = os.environ.get("VERIF_REPO", "/repo")
LEAN = os.path.join(VERIF, "lean")
HARNESS = os.path.join(VERIF, "harness")
MODULE = "github.com/pion/transport/v3"
ALLOWED_AXIOMS = {"propext", "Classical.choice", "Quot.sound"}
FORBIDDEN_TOKENS = re.compile(
    r"\bsorry\b|\badmit\b|^\s*axiom\s|native_decide|bv_decide|implemented_by|\bunsafe\s|maxHeartbeats\s+0")

GOENV = dict(os.environ, GOFLAGS="-mod=mod", GOPROXY="off", GOSUMDB="off", GOTOOLCHAIN="local")


def log(*a):
    print(*a, flush=True)


class Work:
    """scratch directory under /verif/.work, removed at exit"""

    def __init__(self, pid_tag):
        # scratch directories of runs that were killed (their process is gone) are removed first: a thorough
        # run can leave gigabytes behind
        wd = os.path.join(VERIF, ".work")
        if os.path.isdir(wd):
            for name in os.listdir(wd):
                m = re.fullmatch(r"C\d\d(?:-replay)?-(\d+)", name)
                if m and not os.path.exists("/proc/%s" % m.group(1)):
                    shutil.rmtree(os.path.join(wd, name), ignore_errors=True)
        self.dir = os.path.join(VERIF, ".work", "%s-%d" % (pid_tag, os.getpid()))
        shutil.rmtree(self.dir, ignore_errors=True)
        os.makedirs(self.dir)

    def path(self, *p):
        return os.path.join(self.dir, *p)

    def cleanup(self):
        if not os.environ.get("VERIF_KEEP"):
            shutil.rmtree(self.dir, ignore_errors=True)


# ----------------------------------------------------------------------------- Lean

def _lake_lock():
    os.makedirs(os.path.join(VERIF, ".work"), exist_ok=True)
    f = open(os.path.join(VERIF, ".work", "lake.lock"), "w")
    fcntl.flock(f, fcntl.LOCK_EX)
    return f


def lake_build(targets, timeout=3000):
    """returns (ok, output). Serialised: lake is not safe to run twice in one project."""
    lk = _lake_lock()
    try:
        p = subprocess.run(["lake", "build"] + list(targets), cwd=LEAN, stdout=subprocess.PIPE,
                           stderr=subprocess.STDOUT, text=True, timeout=timeout)
        return p.returncode == 0, p.stdout
    finally:
        lk.close()


def driver_path():
    return os.path.join(LEAN, ".lake", "build", "bin", "vdrv")


def strip_lean_comments(src):
    # remove /- ... -/ (nested) and -- ... comments; good enough for token grep
    out, i, depth, n = [], 0, 0, len(src)
    while i < n:
        if src.startswith("/-", i):
            depth += 1
            i += 2
        elif depth and src.startswith("-/", i):
            depth -= 1
            i += 2
        elif depth:
            if src[i] == "\n":
                out.append("\n")
            i += 1
        elif src.startswith("--", i):
            while i < n and src[i] != "\n":
                i += 1
        else:
            out.append(src[i])
            i += 1
    return "".join(out)


def forbidden_token_scan():
    """grep for sorry/admit/axiom/native_decide/... in every project .lean file, comments stripped"""
    hits = []
    for root, _, files in os.walk(LEAN):
        if ".lake" in root:
            continue
        for fn in files:
            if not fn.endswith(".lean"):
                continue
            p = os.path.join(root, fn)
            txt = strip_lean_comments(open(p).read())
            for k, line in enumerate(txt.split("\n"), 1):
                if FORBIDDEN_TOKENS.search(line):
                    hits.append("%s:%d: %s" % (os.path.relpath(p, VERIF), k, line.strip()))
    return hits


def audit(prop):
    """Run Audit/<prop>.lean (a list of `#print axioms thm`). Returns list of
    dict(theorem, axioms, ok) and the raw output. A theorem that does not exist makes lean fail."""
    f = os.path.join(LEAN, "Audit", prop + ".lean")
    want = re.findall(r"^#print axioms\s+(\S+)", open(f).read(), re.M)
    lk = _lake_lock()
    try:
        p = subprocess.run(["lake", "env", "lean", f], cwd=LEAN, stdout=subprocess.PIPE,
                           stderr=subprocess.STDOUT, text=True, timeout=1200)
    finally:
        lk.close()
    out = p.stdout
    res = {}
    flat = re.sub(r"\n\s+", " ", out)
    for m in re.finditer(r"'([^']+)' depends on axioms: \[([^\]]*)\]", flat):
        res[m.group(1)] = [a.strip() for a in m.group(2).split(",") if a.strip()]
    for m in re.finditer(r"'([^']+)' does not depend on any axioms", flat):
        res[m.group(1)] = []
    rows = []
    for t in want:
        # names may be printed fully qualified
        key = next((k for k in res if k == t or k.endswith("." + t) or t.endswith("." + k)), None)
        if key is None:
            rows.append(dict(theorem=t, axioms=None, ok=False))
        else:
            ax = res[key]
            rows.append(dict(theorem=t, axioms=ax, ok=set(ax) <= ALLOWED_AXIOMS))
    return rows, out, p.returncode


# ----------------------------------------------------------------------------- Go harness

def write_overlay(work, mapping):
    """mapping: {path under /repo : source file or ''}"""
    ov = {"Replace": {os.path.join(REPO, k): v for k, v in mapping.items()}}
    p = work.path("overlay.json")
    with open(p, "w") as f:
        json.dump(ov, f, indent=1)
    return p


def shim_overlay():
    """the helper package vh (rng, writers) is injected into the module as verifshim/vh"""
    m = {}
    d = os.path.join(HARNESS, "shim")
    for root, _, files in os.walk(d):
        for fn in files:
            if fn.endswith(".go") or fn.endswith(".s"):
                rel = os.path.relpath(os.path.join(root, fn), d)
                m[os.path.join("verifshim", rel)] = os.path.join(root, fn)
    return m


def inpkg_overlay(pkg, names=None, sub=None):
    """harness/inpkg/<sub or pkg>/*.go -> /repo/<pkg>/zz_verif_<name>"""
    m = {}
    d = os.path.join(HARNESS, "inpkg", sub or pkg)
    for fn in sorted(os.listdir(d)):
        if not fn.endswith(".go"):
            continue
        if names is not None and fn not in names:
            continue
        m[os.path.join(pkg, "zz_verif_" + fn)] = os.path.join(d, fn)
    return m


TIME_SEL = re.compile(r"\btime\.(Now|Since|Until|Sleep|NewTimer|AfterFunc|After|Timer)\b")


def vtime_overlay(work, rel_files):
    """the `-time` rewrite pass (DESIGN.md E4): in copies of the given working-tree files every use of
    time.Now/Since/Until/Sleep/NewTimer/AfterFunc/After/Timer is redirected to the virtual clock vtime;
    everything else (time.Duration, time.Time, constants) is left alone. Returns an overlay mapping."""
    m = {}
    for rel in rel_files:
        src = open(os.path.join(REPO, rel)).read()
        out, n = TIME_SEL.subn(lambda mm: "vtime." + mm.group(1), src)
        if n == 0:
            continue
        imp = '\t"%s/verifshim/vtime"\n' % MODULE
        if "import (" in out:
            out = out.replace("import (\n", "import (\n" + imp, 1)
        else:
            out = re.sub(r'import "time"\n', 'import (\n\t"time"\n' + imp + ')\n', out, 1)
        if not re.search(r"\btime\.", out):
            out = re.sub(r'\n\t"time"\n', "\n", out, 1)
        p = work.path("vtime_" + rel.replace("/", "_"))
        with open(p, "w") as f:
            f.write(out)
        m[rel] = p
    return m


def vrewrite_bin():
    """the AST rewriter (harness/tools/vrewrite) is built on demand, offline, stdlib only"""
    out = os.path.join(VERIF, ".work", "vrewrite")
    src = os.path.join(HARNESS, "tools", "vrewrite")
    if not os.path.exists(out) or os.path.getmtime(out) < os.path.getmtime(os.path.join(src, "main.go")):
        os.makedirs(os.path.dirname(out), exist_ok=True)
        subprocess.check_call(["go", "build", "-o", out, "."], cwd=src, env=GOENV)
    return out


def yield_overlay(work, rel, funcs, kinds="", src=None):
    """the `-yield` rewrite pass (DESIGN.md E5) on one working-tree file (or on an already rewritten copy `src`)"""
    p = work.path("yield_" + rel.replace("/", "_"))
    with open(p, "w") as f:
        subprocess.check_call([vrewrite_bin(), "-file", src or os.path.join(REPO, rel), "-funcs", ",".join(funcs), "-kinds", kinds], stdout=f)
    return {rel: p}


def skeleton(rel, funcs):
    out = subprocess.check_output([vrewrite_bin(), "-file", os.path.join(REPO, rel), "-funcs", ",".join(funcs), "-skeleton"], text=True)
    return dict(l.split(": ", 1) if ": " in l else (l.rstrip(":"), "") for l in out.strip().split("\n") if l)


def go_test(work, overlay, pkg, run, env, timeout=3000, tags=None, race=False, extra=None):
    cmd = ["go", "test", "-vet=off", "-count=1", "-overlay", overlay, "-run", run,
           "-timeout", "%ds" % timeout]
    if tags:
        cmd += ["-tags", tags]
    if race:
        cmd += ["-race"]
    if extra:
        cmd += extra
    cmd += ["./" + pkg + "/"]
    e = dict(GOENV)
    e.update({k: str(v) for k, v in env.items()})
    t0 = time.time()
    p = subprocess.run(cmd, cwd=REPO, env=e, stdout=subprocess.PIPE, stderr=subprocess.STDOUT,
                       text=True, timeout=timeout + 120)
    return p.returncode, p.stdout, time.time() - t0


def run_driver(component, ops_path, out_path, extra_args=()):
    with open(ops_path) as fi, open(out_path, "w") as fo:
        p = subprocess.run([driver_path(), component] + list(extra_args), stdin=fi, stdout=fo,
                           stderr=subprocess.PIPE, text=True, timeout=3000)
    return p.returncode, p.stderr


# ----------------------------------------------------------------------------- known findings, evidence

def load_known():
    p = os.path.join(VERIF, "known_findings.json")
    if not os.path.exists(p):
        return []
    return json.load(open(p)).get("findings", [])


def write_evidence(prop, ev):
    os.makedirs(os.path.join(VERIF, "evidence"), exist_ok=True)
    p = os.path.join(VERIF, "evidence", prop + ".json")
    tmp = p + ".tmp"
    with open(tmp, "w") as f:
        json.dump(ev, f, indent=1, sort_keys=True)
        f.write("\n")
    os.replace(tmp, p)


def write_replay(prop, obj):
    os.makedirs(os.path.join(VERIF, "replays"), exist_ok=True)
    h = hashlib.sha1(json.dumps(obj, sort_keys=True).encode()).hexdigest()[:12]
    p = os.path.join(VERIF, "replays", "%s-%s.json" % (prop, h))
    with open(p, "w") as f:
        json.dump(obj, f, indent=1)
        f.write("\n")
    return p


def sha(s):
    return hashlib.sha1(s.encode()).hexdigest()
