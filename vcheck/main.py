import argparse
import os
import sys

sys.path.insert(0, os.path.dirname(os.path.dirname(os.path.abspath(__file__))))
from vcheck import core, props, seqcheck  # noqa: E402


def main():
    ap = argparse.ArgumentParser()
    ap.add_argument("prop")
    ap.add_argument("--tier", default=os.environ.get("VERIF_TIER", "quick"), choices=["quick", "thorough"])
    ap.add_argument("--seed", type=int, default=int(os.environ.get("VERIF_SEED", "1") or 1))
    ap.add_argument("--replay")
    a = ap.parse_args()
    if a.prop == "setup":
        ok, out = core.lake_build([])
        print(out[-3000:])
        sys.exit(0 if ok else 1)
    if a.prop == "C19":
        from vcheck import c19
        if a.replay:
            print(open(a.replay).read()[:6000])
            print("replay of a race report: re-running the workloads")
        sys.exit(c19.run(a.tier, a.seed))
    if a.prop in props.SEQ:
        cfg = props.SEQ[a.prop]
        if a.replay:
            sys.exit(seqcheck.run_replay(cfg, a.replay, a.seed))
        sys.exit(seqcheck.run_check(cfg, a.tier, a.seed))
    print("unknown property", a.prop)
    sys.exit(2)


if __name__ == "__main__":
    main()
