"""Registry of the checks: one entry per claimed property."""
from .seqcheck import Cfg

LEAN_TB = ["Lean 4.33.0 kernel (+ leanchecker re-check in the thorough tier)",
           "axioms accepted in property theorems: propext, Classical.choice, Quot.sound (audited by #print axioms on every run)"]

SEQ = {}


def seq(**kw):
    SEQ[kw["prop"]] = Cfg(**kw)


_REPLAY_COMMON = dict(
    pkg="replaydetector", run="^TestVerifReplay$", component="replay",
    files=["replay_test.go"], wb_files=["replay_wb_test.go"],
    quick_n=20000, thorough_n=1000000,
    trusted=LEAN_TB + [
        "hand-written Lean model of fixedbig.go/replaydetector.go (Model/FixedBig.lean, Model/Replay.lean), validated on every run against the real package: outputs (L1) and latestSeq/init/every mask word (L2) after every operation",
        "reading of the property as Spec/Replay.lean",
        "Go harness harness/inpkg/replaydetector, overlay mechanism, driver parsing"],
    assumptions=["sequence numbers and windows modelled as Nat with explicit 2^64 reductions where the Go code can wrap",
                 "accept is invoked before the next Check (the property's quantifier)"],
)

seq(prop="C04", lean_targets=["TransportVerif.Props.C04"], driver_args=["C04"],
    nontrivial=["replay-in-window", "replay-behind-window", "replay-top-word", "above-max"],
    rule="random histories (<=60 ops) of check / check+accept over boundary-biased windows and maxima, both detectors; "
         "forward jumps of every distance class, late arrivals at every window offset, replays of accepted numbers. "
         "non-trivial = the history re-checks an already accepted number or a number above the maximum; distinct = hash of the ops text",
    **_REPLAY_COMMON)

seq(prop="C05", lean_targets=["TransportVerif.Props.C05"], driver_args=["C05"],
    nontrivial=["late", "shift>=64", "shift>=window", "near-boundary", "near-2^64", "late-across-wrap", "advance-across-wrap"],
    rule="as C04; non-trivial = the history contains a late arrival, a window shift of >= 64 or >= window, a number near the "
         "half-space boundary or within window of 2^64; distinct = hash of the ops text",
    **_REPLAY_COMMON)
