"""Registry of the checks: one entry per claimed property."""
from .seqcheck import Cfg

LEAN_TB = ["Lean 4.33.0 kernel (+ leanchecker re-check in the thorough tier)",
           "axioms accepted in property theorems: propext, Classical.choice, Quot.sound (audited by #print axioms on every run)"]

SEQ = {}


def seq(**kw):
    SEQ[kw["prop"]] = Cfg(**kw)


_REPLAY_COMMON = dict(
    pkg="replaydetector", run="^TestVerifReplay$", component="replay",
    files=["replay_test.go"], wb_files=["replay_wb_test.go"],
    quick_n=20000, thorough_n=1000000,
    trusted=LEAN_TB + [
        "hand-written Lean model of fixedbig.go/replaydetector.go (Model/FixedBig.lean, Model/Replay.lean), validated on every run against the real package: outputs (L1) and latestSeq/init/every mask word (L2) after every operation",
        "reading of the property as Spec/Replay.lean",
        "Go harness harness/inpkg/replaydetector, overlay mechanism, driver parsing"],
    assumptions=["sequence numbers and windows modelled as Nat with explicit 2^64 reductions where the Go code can wrap",
                 "accept is invoked before the next Check (the property's quantifier)"],
)

seq(prop="C04", lean_targets=["TransportVerif.Props.C04"], driver_args=["C04"],
    design_ref="DESIGN.md 7.4, 10",
    technique="Lean 4 proof: refinement invariant between the word-level detector model and the accepted-set recorder, by induction over histories; differential correspondence model vs. Go (L1 outputs, L2 mask words)",
    level_text="Theorems judged04 / plain_never_twice / never_above_max / never_panics (Props/C04.lean) hold for every window, every maximum (wrapping: < 2^62), every history of any length, proved in Lean 4 about a word-level model of fixedbig.go and replaydetector.go (per-bit lemma for the multi-word shift, refinement to the set of accepted numbers). The model is hand-written; it is tied to the working tree by running model and real package on the same generated histories and comparing every answer, latestSeq, init and every mask word after every operation, plus an exhaustive enumeration of tiny sequence spaces.",
    level_note="Trusted: Lean kernel; axioms propext/Classical.choice/Quot.sound; the reading of C04 in Spec/Replay.lean (mustRefuse/allowed04); the correspondence harness (differential testing, generator-bounded). Wrapping detector maxima >= 2^62 are outside the theorem (signed 64-bit arithmetic) and covered by correspondence only.",
    nontrivial=["replay-in-window", "replay-behind-window", "replay-top-word", "above-max"],
    rule="random histories (<=60 ops) of check / check+accept over boundary-biased windows and maxima, both detectors; "
         "forward jumps of every distance class, late arrivals at every window offset, replays of accepted numbers. "
         "non-trivial = the history re-checks an already accepted number or a number above the maximum; distinct = hash of the ops text",
    **_REPLAY_COMMON)

seq(prop="C05", lean_targets=["TransportVerif.Props.C05"], driver_args=["C05"],
    design_ref="DESIGN.md 7.5, 10",
    technique="Lean 4 proof: the model's answers equal the exact sliding-window rule evaluated on the recorded history (refinement by induction over histories); purity of Check as a state-equality theorem; differential correspondence model vs. Go",
    level_text="Theorem judged05 (Props/C05.lean): for both detectors, every configuration in C05's scope and every history, Check's answer and accept's return value equal the rule expectedOk/expectedLatest of Spec/Replay.lean (the two numbers nearest the half-space boundary, and first use in a space of <= 4 numbers, are unconstrained as the property says); check_is_pure / check_changes_no_later_answer / refused_is_pure: a Check without accept leaves the detector state equal. Tie to the code as for C04.",
    level_note="Trusted: Lean kernel and the three standard axioms; the reading of C05 in Spec/Replay.lean; the correspondence harness. Accept is assumed to be invoked before the next Check (the property's quantifier).",
    nontrivial=["late", "shift>=64", "shift>=window", "near-boundary", "near-2^64", "late-across-wrap", "advance-across-wrap"],
    rule="as C04; non-trivial = the history contains a late arrival, a window shift of >= 64 or >= window, a number near the "
         "half-space boundary or within window of 2^64; distinct = hash of the ops text",
    **_REPLAY_COMMON)


_RING_COMMON = dict(
    pkg="packetio", run="^TestVerifRing$", component="ring",
    files=["ring_test.go"], wb_files=["ring_wb_test.go"],
    quick_n=1000, thorough_n=60000, search_n=3000,
    variants=[dict(), dict(tags="packetioSizeHardlimit")],
    trusted=LEAN_TB + [
        "hand-written Lean model of packetio/buffer.go (Model/Ring.lean), validated on every run against the real Buffer: results, Count, Size (L1) and head/tail/len(data)/count (L2) after every operation, in the default build and with -tags packetioSizeHardlimit",
        "reading of the property as Spec/Ring.lean (a FIFO of packets with limits)",
        "Go harness harness/inpkg/packetio, overlay mechanism, driver parsing; read results are compared as length + FNV-1a 64 hash"],
    assumptions=["sequential histories (blocking and wake-ups are C08)", "slice aliasing is outside the value-based model; the harness overwrites the caller's slice after every Write"],
)

seq(prop="C06", lean_targets=["TransportVerif.Props.C06"],
    design_ref="DESIGN.md 7.6, 10",
    technique="Lean 4 proof: ring (head/tail/grow/wrap) refines a FIFO of packets via the invariant stored = frames of the queue, by induction over operation lists; differential correspondence model vs. Go",
    level_text="PENDING",
    level_note="PENDING",
    nontrivial=["wrap-header-split", "wrap-payload", "grow-with-data", "grow-discontinuous", "short-read", "read-wrap", "read-header-split"],
    rule="generated histories of Write/Read/limit changes/Close in four modes (aim at the ring end with every offset; growth with data present; "
         "size limits around 2048*2^k; the 4 MiB cap). non-trivial = a header or payload is split at the ring end, the ring grows with data present, "
         "or a read is short; distinct = hash of the ops text",
    **_RING_COMMON)

seq(prop="C07", lean_targets=["TransportVerif.Props.C07"],
    design_ref="DESIGN.md 7.7, 10",
    technique="Lean 4 proof: exact refusal condition and occupancy accounting of the ring model against the FIFO-with-limits spec, termination of the growth loop as a proof obligation; differential correspondence model vs. Go",
    level_text="PENDING",
    level_note="PENDING",
    nontrivial=["full-count", "full-size", "full-cap", "full-by-one", "fits-size-exactly", "fits-count-exactly", "fits-cap-exactly"],
    rule="as C06; non-trivial = a write is refused by a limit, or accepted with no room to spare; distinct = hash of the ops text",
    **_RING_COMMON)

seq(prop="C16", lean_targets=["TransportVerif.Props.C16"], pkg="vnet", run="^TestVerifLoss$", component="loss",
    files=["loss_test.go"], quick_n=3000, thorough_n=100000,
    nontrivial=["draw-at-threshold", "endpoint", "stat"],
    rule="random chances in -5..105 plus end points and far out-of-range values; streams of 5..64 datagrams with random payloads; the draws of the "
         "global math/rand source are predicted by reseeding, so forward/drop is compared with the model per datagram; 10% of the cases add a "
         "20000-datagram unscripted stream whose dropped fraction must be within 6 sigma. non-trivial = a draw adjacent to the threshold, an end-point "
         "chance, or a statistical stream; distinct = hash of the ops text",
    design_ref="DESIGN.md 7.16",
    technique="Lean 4 proof of the decision logic (threshold on a draw): end points, ordered-sublist, counting lemma; differential correspondence with predicted math/rand draws",
    level_text="Theorems chance_le_0_forwards_all, chance_ge_100_forwards_none, forwarded_is_ordered_sublist, dropped_draws (Props/C16.lean) for every chance (any integer) and every stream. The model (one draw per datagram, drop iff draw < chance) is tied to loss_filter.go by predicting the draws of the global math/rand source (reseeding) and comparing forward/drop and the forwarded chunk (identity, payload, addresses) per datagram.",
    level_note="Trusted: Lean kernel + standard axioms; uniformity and independence of math/rand draws (the probabilistic clause rests on it; a 6-sigma frequency test is run as a sanity check only); the harness' prediction of draws by reseeding the global source.",
    trusted=LEAN_TB + ["Model/Loss.lean validated per datagram against LossFilter.onInboundChunk with predicted draws", "uniformity of math/rand"],
    assumptions=["math/rand.Intn(100) is uniform on 0..99", "one filter at a time uses the global math/rand source during the check"])

def _xor_old_overlay(work):
    """compile xor_old.go instead of xor_generic.go: the working-tree file with its build constraint
    lines removed replaces it, xor_generic.go is mapped away (the constraint `(!go1.20 && !arm) || gccgo`
    cannot be satisfied by the gc toolchain in this sandbox without breaking the runtime)"""
    import os
    from . import core
    src = open(os.path.join(core.REPO, "utils/xor/xor_old.go")).read().split("\n")
    out = [l for l in src if not l.startswith("//go:build") and not l.startswith("// +build")]
    p = work.path("xor_old_unconstrained.go")
    open(p, "w").write("\n".join(out))
    return {"utils/xor/xor_old.go": p, "utils/xor/xor_generic.go": ""}


seq(prop="C20", lean_targets=["TransportVerif.Props.C20"], pkg="utils/xor", inpkg="xor", run="^TestVerifXor$", component="xor",
    quick_n=6000, thorough_n=12000,
    variants=[dict(files=["xor_h_test.go", "variant_generic_test.go"]),
              dict(files=["xor_h_test.go", "variant_old_test.go"], overlay_fn=_xor_old_overlay)],
    nontrivial=["aliased", "unequal", "words+tail", "dst-short"],
    rule="deterministic sweep of all lengths 0..40 x 0..40 of a and b x 3 aliasings, plus random cases (lengths to 96, thorough 600), all start "
         "offsets 0..7 of each slice inside a guarded backing array, aliasing dst==a / dst==b, dst longer, equal or too short; run against both "
         "implementations that build on amd64 (default: xor_generic.go; and xor_old.go compiled in its place by overlay). non-trivial = aliased, unequal lengths, a word "
         "part and a tail, or a short dst; distinct = hash of the op",
    design_ref="DESIGN.md 7.20",
    technique="Lean 4 proof that the word-wise loop of xor_old.go meets the contract for all lengths/contents/exact aliasings; differential correspondence of contract and model with both Go builds",
    level_text="Theorem xor_old_correct (Props/C20.lean): the model of fastXORBytes (8-byte word loop + tail loop over one memory with aliasing modes none / dst==a / dst==b) equals the contract for all inputs; contract_n / contract_prefix / contract_frame_dst / contract_frame_ab spell the contract out pointwise. For the default build (xor_generic.go) the function IS crypto/subtle.XORBytes, whose contract is taken as given and validated by the correspondence run only.",
    level_note="Trusted: Lean kernel + standard axioms; crypto/subtle.XORBytes (stdlib assembly) as its documented contract; word XOR = bytewise XOR of the memory images; xor_arm.go/.s cannot be built or run on amd64 and is not covered; alignment (start offsets) is exercised by the harness only.",
    trusted=LEAN_TB + ["Model/Xor.lean validated against both builds (generic, and xor_old.go via -tags gccgo) on every run", "crypto/subtle.XORBytes contract"],
    assumptions=["exact aliasing only (dst is a or b or disjoint); partial overlap is outside the property", "xor_arm.go not covered (cannot run on amd64)"])

_C18_TB = LEAN_TB + ["hand-written Lean models Model/Bridge.lean and Model/DPipe.lean validated against test.Bridge and dpipe.Pipe on every run (answers, queue lengths; stack sizes and counters white-box)",
                     "reading of C18 in Spec/Pipe.lean (Lane: first applicable rule of drop count / reorder block / filter; DPipe: two bounded FIFOs)"]
seq(prop="C18", lean_targets=["TransportVerif.Props.C18"], pkg="test", run="^TestVerifBridge$", component="bridge",
    files=["bridge_h_test.go"], wb_files=["bridge_wb_test.go"], quick_n=4000, thorough_n=150000,
    nontrivial=["block-complete", "block-of-one", "reordernext-during-block", "drop-beyond", "drop-clamped", "filtered", "dropped-by-count", "cut", "reorder-queue"],
    rule="random scripts (10..60 ops + drain) of writes in both directions interleaved with DropNextNWrites, ReorderNextNWrites (repeated, n = -1,0,1,2,3,4), "
         "Drop (offsets inside, at and beyond the queue length, counts <= 0), Reorder, Filter, and deliveries into slices of 0..100 bytes (a reader is parked, then Tick); "
         "dpipe part: scripts of writes/reads/close on both ends, 3% fill a channel to capacity. non-trivial = a reorder block completes, a Drop is clamped or beyond "
         "the queue, a write is filtered or dropped by count, a delivery is cut; distinct = hash of the ops text",
    design_ref="DESIGN.md 7.18",
    technique="Lean 4 proof: Bridge model (two hand-duplicated directions, stack+inverse) refines the symmetric list script; dpipe model refines two bounded FIFOs; no-dup/no-invention/conservation as corollaries on the spec; differential correspondence with test.Bridge and dpipe.Pipe",
    level_text='Theorems bridge_step_refines / bridge_refines_script (Props/C18.lean): for EVERY Bridge state and every script (writes both ways, DropNextNWrites, ReorderNextNWrites also repeated or with n <= 1, Drop with any offset/count, Reorder, Filter, deliveries into slices of any length) the model of bridge.go — with its two hand-duplicated directions, collecting stack and inverse() — answers exactly as the symmetric list script of Spec/Pipe.lean. On the script semantics: conservation (written = delivered + discarded + held, as multisets, at every point), no_dup, no_invention, fifo_when_unimpaired, reorder_block_reversed, deliver_is_head_cut. dpipe: dpipe_step_refines / dpipe_is_message_fifo (two bounded message FIFOs, one message per read, cut to the slice) and dpipe_close_is_local. Models tied to test.Bridge and dpipe.Pipe by differential runs (answers, queue lengths; stacks and counters white-box; a delivery is a parked reader plus Tick).', level_note="Trusted: Lean kernel + standard axioms (no Classical.choice used); reading of C18 in Spec/Pipe.lean, in particular the precedence drop count > reorder block > filter taken from the code; correspondence harness. Not covered: Bridge endpoint Close, SetLossChance (random loss), deadlines (C10), dpipe writes that would block on a full channel (reported as 'block', not issued).",
    trusted=_C18_TB, assumptions=["Bridge endpoints are not closed and SetLossChance is 0 (outside the property's quantifier)", "sequential scripts; a delivery is one Tick with exactly one parked reader"],
    variants=[dict(name="bridge"),
              dict(name="dpipe", pkg="dpipe", inpkg="dpipe", run="^TestVerifDPipe$", component="dpipe", files=["dpipe_h_test.go"], wb_files=["dpipe_wb_test.go"])])

_NAT_COMMON = dict(
    pkg="vnet", run="^TestVerifNAT$", component="nat", files=["nat_h_test.go"], quick_n=8000, thorough_n=300000,
    trusted=LEAN_TB + ["hand-written Lean model of vnet/nat.go (Model/Nat.lean) validated on every run against networkAddressTranslator: every result (L1) and both maps, filters, remaining lifetimes, port counter (L2) after every call",
                       "reading of C02/C03 as Spec/Nat.lean (history recorder + judgements)",
                       "time is advanced by moving every mapping's expiry stamp back (white box); net.ResolveUDPAddr as 'fails iff port > 65535'; string keys modelled as tuples"],
    assumptions=["one clock reading per call (real time between calls is microseconds; step sizes never make a gap exactly equal to the lifetime)",
                 "UDP chunks only; Hairpinning and PortPreservation are not implemented by the code and not modelled"],
)
seq(prop="C02", lean_targets=["TransportVerif.Props.C02"], driver_args=["C02"],
    nontrivial=["reuse", "refresh", "realloc-after-expiry", "same-endpoint-other-mapping", "exhausted", "one2one"],
    rule="random histories (15..80 calls) of outbound/inbound datagrams and time steps around the lifetime over 6 internal endpoints (incl. near-collision "
         "texts) x 6 remotes, all 9 mapping x filtering behaviours, several lifetimes incl. the default, 1:1 mode with 0..3 pairs; one history per run crosses "
         "16384 allocations. non-trivial = a mapping is reused, refreshed, re-allocated after expiry, a second mapping of the same endpoint exists, the port "
         "range is exhausted, or 1:1 mode; distinct = hash of the ops text",
    design_ref="DESIGN.md 7.2", technique="Lean 4 proof: invariant over call histories (maps are inverse views, ports injective) and refinement to the mapping-history spec; differential correspondence model vs. Go",
    level_text="Theorem judged (Props/C02.lean): for every NAT the constructor accepts (3x3 behaviours, any lifetime >= 0, 1:1 mode with k pairs) and EVERY history of outbound/inbound datagrams and time steps of any length — including more allocations than there are ports — every answer of the model is admitted by the judgements of Spec/Nat.lean on the recorded history: same internal endpoint and agreeing destination while alive => same external address; otherwise a fresh address on the router's IP with a port in 49152..65535 held by no live mapping, or a refusal once 16384 addresses were handed out. ext_valid, ext_injective (external ports pairwise different in every reachable state), one_to_one_outbound. Proved through an abstract single-list machine (the two Go maps are shown to be two key views of one mapping list), invariant WfL and a refinement relation to the mapping-history spec. The model is tied to nat.go by differential runs comparing every result and both maps, filters, remaining lifetimes and the port counter after every call.", level_note="Trusted: Lean kernel + standard axioms; reading of C02 in Spec/Nat.lean; hypothesis portsOk (UDP ports <= 65535; without it the statement is false in the model because Addr.port is an unbounded Nat — counterexample recorded in the docstring); time advance by shifting expiry stamps; string keys as tuples; net.ResolveUDPAddr as 'fails iff port > 65535'. A gap exactly equal to the lifetime is left as the code has it (not expired) and is not exercised by the harness.", **_NAT_COMMON)
seq(prop="C03", lean_targets=["TransportVerif.Props.C03"], driver_args=["C03"],
    nontrivial=["admitted", "refused-noperm", "refused-expired", "refused-unknown", "refused-unpaired"],
    rule="as C02; non-trivial = the history contains an inbound datagram (admitted, refused for lack of permission, to an expired or never allocated address, or to an unpaired 1:1 address); distinct = hash of the ops text",
    design_ref="DESIGN.md 7.3", technique="Lean 4 proof: exact admission rule as decision logic over the mapping-history spec; refused inbound is silent (state equality up to expired entries); differential correspondence model vs. Go",
    level_text="Theorems inbound_judged (every inbound answer equals NatSpec.allowedIn: forwarded to the mapping's creator iff a live mapping owns the destination and the sender matches a permission recorded by an earlier outbound datagram of that mapping; dropped otherwise), inbound_is_silent (for every reachable state, an inbound datagram — forwarded or refused — changes no later answer; proved via canon = the unexpired mappings), inbound_to_owner, one_to_one_inbound (Props/C03.lean). Same model and tie as C02; every refused inbound of the generated histories is followed by further calls whose answers are compared.", level_note='Trusted: as C02. Payload and source address of a forwarded datagram are checked by the harness on the real chunk (the model does not carry payloads).', **_NAT_COMMON)

seq(prop="C13", lean_targets=["TransportVerif.Props.C13"], pkg="vnet", run="^TestVerifRouterAddr$", component="router",
    files=["addr_h_test.go"], quick_n=4000, thorough_n=40000,
    variants=[dict(name="router"), dict(name="host", run="^TestVerifHostAddr$", component="host")],
    nontrivial=["static-in-auto-range", "auto-skips-static", "exhausted", "conflict", "ephemeral-skips-used", "same-port-other-ip", "probe-hit", "wildcard"],
    rule="router part: random orders of static (pairwise distinct, biased to the automatic range just ahead of the counter, outside the subnet, several per NIC) and "
         "automatic attachments on /24, /16 and /25 routers, 8% of the cases attach 260 NICs; host part: histories of ListenUDP/ListenPacket/DialUDP with specific, "
         "wildcard, loopback and foreign addresses, explicit ports and port 0 (the draw of assignPort scripted by reseeding math/rand), Close, and probe datagrams; "
         "4% fill 5000-5999. non-trivial = static address inside the automatic range, automatic assignment skipping a taken address, exhaustion, a bind conflict, "
         "an ephemeral search skipping used ports, two IPs on one port, a probe delivered; distinct = hash of the ops text",
    design_ref="DESIGN.md 7.13", technique="Lean 4 proof: invariants of the address table and the socket table by induction over operation histories, bind success as an iff; differential correspondence model vs. Go",
    level_text="Router (Props/C13.lean): auto_never_taken (an automatically assigned address is never held already and lies in the subnet, from any router state), assigned_in_subnet, no_address_twice (along any history of static and automatic attachments in any order and number in which the user supplies no address already held, all addresses handed out are pairwise distinct), exhaustion_is_real (exhaustion is reported only when every pool address .1-.254 is held or outside the subnet). Host: open_sockets_never_conflict (reachable states), bind_succeeds_iff (explicit port: success iff the IP is the host's or the wildcard and no open socket covers the address; the open set then grows by exactly that socket, as a multiset), ephemeral_in_range_and_free (port 0, for every random offset: the chosen port is in 5000-5999 and free; failure iff none is free), foreign_ip_refused, close_frees, find_returns_the_covering_socket. Models tied to Router.AddNet and Net.ListenUDP/ListenPacket/DialUDP/Close/onInboundChunk by differential runs (answers; lastID, nics, portMap white-box).", level_note="Trusted: Lean kernel + standard axioms; reading of C13 in Spec/Addressing.lean. Two statements were false as first written and are kept as refuted `_statement` definitions: the open-socket list is equal only up to permutation (portMap re-inserts a port's entry at the end), and a wildcard bind needs the host to have at least one IPv4 address (always true for a vnet host: lo0). The draw of assignPort is scripted by reseeding math/rand. What happens when the user supplies the same static address twice is not constrained (the property says so).",
    trusted=LEAN_TB + ["hand-written Lean models Model/Addressing.lean (router assignment; host socket table) validated against Router.AddNet and Net.ListenUDP/ListenPacket/DialUDP/Close/onInboundChunk (answers; lastID, nics, portMap white-box)",
                       "reading of C13 in Spec/Addressing.lean"],
    assumptions=["static addresses supplied by the user are pairwise distinct (the property's quantifier)", "IPv4 only"])

seq(prop="C09", lean_targets=["TransportVerif.Props.C09"], pkg="deadline", run="^TestVerifDeadline$", component="deadline",
    files=["deadline_h_test.go"], wb_files=["deadline_wb_test.go"], quick_n=8000, thorough_n=300000,
    nontrivial=["stale-callback", "set-with-callback-outstanding", "set-after-expiry", "set-rearm", "live-callback"],
    rule="random histories (8..58 steps + settle) of Set(zero | past | now | future), clock advances, timer expiries dispatched by a scripted runtime timer placed in the "
         "unexported timer field, and callbacks executed later (up to 8 outstanding; thorough: 3% of the cases up to 300). non-trivial = a callback runs after a later Set "
         "(stale), a Set happens with callbacks outstanding, after expiry, or re-arms a live timer; distinct = hash of the ops text",
    design_ref="DESIGN.md 7.9", technique="Lean 4 proof: safety invariant of the state/pending/done bookkeeping over all interleavings of Set, expiry dispatch and delayed callbacks; quiescence lemma; differential correspondence with a scripted timer",
    level_text="Theorem judged09 (Props/C09.lean): for EVERY history of Set(zero|past|future), clock advances, timer expiries dispatched by the runtime and callbacks that run arbitrarily late — also after further Set calls — with fewer than 255 callbacks outstanding, every step satisfies C09's judgement: Done is never closed unless the most recent Set gave a non-zero time that has passed (so never by a superseded timer), Err agrees with Done, Deadline reports the last Set, whenever nothing is in flight Done is closed exactly when that time has passed, a Set after expiry installs a different unsignalled channel, close is never applied to a closed channel. pending_wrap_witness documents the excluded point (256 outstanding callbacks wrap the uint8 and a stale callback signals early) on the model. The model is tied to deadline.go by a scripted timer placed in the unexported timer field; Done/Err/Deadline/channel identity and state/pending are compared after every step.", level_note="Trusted: Lean kernel + standard axioms; time.AfterFunc semantics as modelled (Stop reports whether it prevented the expiry; an expired timer's callback may run arbitrarily late); the bound of 255 outstanding callbacks (the property bounds it by K). Real-clock behaviour of the runtime timer itself is not exercised by this check (C10 uses real and virtual time).",
    trusted=LEAN_TB + ["hand-written Lean model Model/Deadline.lean validated against deadline.Deadline with a scripted timer in the unexported field: Done/Err/Deadline and channel identity (L1), state/pending/armed/outstanding (L2)",
                       "time.AfterFunc semantics as modelled (Stop reports whether it prevented the expiry; Reset re-arms; an expired timer's callback may run arbitrarily late)"],
    assumptions=["fewer than 256 callbacks outstanding at once (pending is a uint8); the theorem states this bound explicitly"])

def _vtime(files):
    from . import core
    return lambda work: core.vtime_overlay(work, files)


seq(prop="C15", lean_targets=["TransportVerif.Props.C15"], pkg="vnet", run="^TestVerifTBF$", component="tbf",
    files=["tbf_h_test.go"], quick_n=800, thorough_n=8000, search_n=3000,
    variants=[dict(overlay_fn=_vtime(["vnet/tbf.go"]))],
    nontrivial=["queued", "multi-forward", "dropped-queue-full", "set-rate", "set-burst", "after-idle", "burst-arrival"],
    rule="random timed arrival lists (10..80 events) under a virtual clock: spacings 0, 1 us, 1 ms, 20/50/99/100/101/150 ms, 1 s, 10 s and random; sizes 0, 1, 100, 1200, 1500, "
         "burst-1, burst, burst+1, 3*burst; rates 16k..8M bit/s, bursts 50..100000 bytes, queue 3000..50000 bytes; run-time rate and burst changes; Close. Every sub-interval of "
         "the implementation's own forward trace is judged against burst + rate*dt (largest values in force), plus order and duplicates. non-trivial = datagrams wait in the queue, "
         "several leave at once, the queue overflows, rate or burst change, arrival after an idle period or in a burst; distinct = hash of the ops text",
    design_ref="DESIGN.md 7.15", technique="Lean 4 proof over exact rationals: token-bucket invariant (0 <= tokens <= burst) and the interval bound by induction over timed arrival lists; the same model instantiated with IEEE doubles is compared bit for bit with tbf.go under a virtual clock",
    level_text="Theorems on the exact-arithmetic (Rat) instance of Model/TBF.lean (Props/C15.lean): refill_bounds (0 <= tokens <= maxBurst after every refill); interval_bound — from ANY state just after an arrival's refill and for ANY continuation (timed arrivals of any sizes, run-time rate/burst changes within [0,Rmax]/[0,Bmax], drains) the bytes forwarded over the interval are at most the tokens at its start plus Rmax times its length, hence <= Bmax + Rmax*dt/8: every sub-interval of every run that starts at an arrival; run_bound for whole runs; forwarded_is_ordered_sublist (in order, no duplicate, unmodified); dropped_only_when_full / full_queue_drops (conservation: nothing is discarded unless the byte queue is full). The IEEE-double instance of the same definitions is compared bit for bit (token count) with tbf.go under the virtual clock, and the implementation's own forward trace is judged over every sub-interval.", level_note="Trusted: Lean kernel + standard axioms; float64 rounding is NOT covered by the theorem (exact rationals): the oracle judges the real trace with 0.001 byte slack and the driver counts Float/Rat decision divergences; vtime + the time rewrite of vnet/tbf.go; quiescence of the filter goroutine read from runtime.Stack. The filter only forwards on arrivals (no timer): 'eventually forwarded' is not part of C15.",
    trusted=LEAN_TB + ["Model/TBF.lean is generic in the number type: the Float instance is validated against tbf.go (forwarded datagrams per arrival, token count bit for bit, queue) under the virtual clock vtime injected by the source rewrite; the Rat instance carries the theorems",
                       "float64 rounding: the theorem is about exact rationals; the oracle judges the implementation's own trace with 0.001 byte of slack, and cases where the Float and Rat instances decide differently are counted (tag float-rat-divergence)",
                       "vtime (virtual clock) and the regex-based time rewrite of vnet/tbf.go; quiescence of the filter goroutine read from runtime.Stack"],
    assumptions=["arrivals are sequential (one onInboundChunk at a time); concurrent senders only interleave at the unbuffered channel"])

def _yield(rel, funcs):
    from . import core
    return lambda work: core.yield_overlay(work, rel, funcs)


seq(prop="C08", lean_targets=["TransportVerif.Props.C08"], pkg="packetio", run="^TestVerifBufSync$", component="bufsync",
    files=["sync_test.go"], quick_n=600, thorough_n=6000, search_n=3000,
    variants=[dict(overlay_fn=_yield("packetio/buffer.go", ["Read", "Write", "Close"]))],
    nontrivial=["two-readers-in-window", "take-and-repost", "write-token-dropped", "write-handoff", "close-wakes", "select-parks", "select-closed"],
    rule="random controlled schedules of 1..4 readers, 0..4 writers, 0..2 closers on one Buffer holding 0..2 packets at the start; a schedule is a sequence of grants at the yield "
         "points inserted before every mutex.Lock() and before the blocking select of Read; after every grant the positions of all goroutines (at which yield, parked in the runtime, "
         "finished with which result) and Count are compared with the transition-system model; at quiescence the implementation's own final positions are judged (no reader parked "
         "while a packet is buffered or after Close). non-trivial = two readers between unlock and select at once, a reader passing the token on, a dropped token, a hand-off to a "
         "parked reader, Close waking readers; distinct = hash of the schedule",
    design_ref="DESIGN.md 7.8", technique="Lean 4 proof: step invariant of a transition system for any number of reader/writer/closer threads (no stranded reader at quiescence); schedules replayed on the real Buffer under a controlled scheduler (source rewritten with yield points) and compared step by step",
    level_text="Theorems (Props/C08.lean) about a transition system of the Buffer's blocking behaviour for ANY number of reader, writer and closer threads and ANY schedule at the granularity of the lock and the wait: no_stranded_reader (in every reachable state where no thread can move, no reader is blocked while a packet is buffered, nor after Close), close_wakes_all, token_implies_nobody_parked, read_at_lock (a Read that finds a packet returns it without waiting; after Close the remaining packets are read, then end-of-file), count_conserved. Proved by a step invariant (a buffered packet with the buffer open implies a pending token or a reader on its way to the lock). The pinned tree violated it (two readers between unlock and wait, two writes, one token: witness schedule in corpus/C08, replayed on the real Buffer); repaired by a fix: commit. Tie to buffer.go: yield points are inserted by an AST pass before every mutex.Lock() and the blocking select; random and readers-first schedules are executed on the real Buffer under a controlled scheduler and, after every grant, the positions of all goroutines (yield site, parked in the runtime, finished with which result) and Count are compared with the model.", level_note="Trusted: Lean kernel + standard axioms; Go runtime semantics as modelled (a send goes to the longest-waiting receiver before the channel buffer, close wakes all receivers, mutex regions atomic); vrewrite/cosched; parking read from runtime.Stack. The theorem is about quiescent states: scheduler fairness is assumed. Read deadlines ('a passed deadline makes Read fail until changed') are covered by C10's model/harness, not by this transition system.",
    trusted=LEAN_TB + ["hand-written transition system Model/BufferSync.lean; tied to buffer.go by (a) the synchronisation skeleton extracted by vrewrite from the working tree and (b) controlled-schedule runs on the real Buffer compared after every grant",
                       "Go runtime semantics as modelled: a channel send goes to the longest-waiting receiver before the buffer; close wakes all receivers; mutex regions are atomic",
                       "vrewrite (AST pass inserting yields), cosched (controller; parking read from runtime.Stack)"],
    assumptions=["the theorem is about quiescent states; scheduler fairness (a runnable goroutine eventually runs) is assumed", "read deadlines are covered by C10, not by this transition system"])

def _vtime_yield(rel, funcs, kinds):
    from . import core

    def f(work):
        m = core.vtime_overlay(work, [rel])
        return core.yield_overlay(work, rel, funcs, kinds, src=m.get(rel))
    return f


seq(prop="C14", lean_targets=["TransportVerif.Props.C14"], pkg="vnet", run="^TestVerifDelay$", component="delay",
    files=["delay_h_test.go"], quick_n=500, thorough_n=4000, search_n=2000,
    variants=[dict(overlay_fn=_vtime_yield("vnet/delay_filter.go", ["Run", "onInboundChunk"], "select,send"))],
    nontrivial=["tick-arm-while-sender-in-window", "notify-after-drain", "notify-wakes-loop", "timer-fires", "forward", "push-arm"],
    rule="controlled schedules of the DelayFilter loop and 1..5 senders under a virtual clock: delays 0, 1 ns, 1 us, 1/10/50 ms; operations: a sender timestamps and queues its chunk (stopping "
         "before the notification), a sender notifies, the loop evaluates its select, time advances (one timer expiry per step); the select is kept deterministic (never a blocked sender and a "
         "pending tick at once). After every step queue length, loop and sender positions and the forwards with their virtual times are compared with the model; the implementation's final "
         "line is judged (no panic, no forward before arrival+delay, arrival order, no duplicates, everything notified forwarded after draining). non-trivial = the timer arm runs while a sender "
         "sits between queueing and notifying, a notification arrives after the queue was drained, a tick, a forward; distinct = hash of the schedule",
    design_ref="DESIGN.md 7.14", technique="Lean 4 proof: timed step invariants of a transition system of the filter loop, its runtime timer and any number of senders (no panic, lower bound, FIFO exactly-once, progress); schedules replayed on the real DelayFilter under virtual time and a controlled scheduler",
    level_text='Theorems about a transition system of DelayFilter (loop with its runtime timer, any number of senders, every interleaving of queueing, notifying, select evaluations and timer expiries, every delay >= 0 including 0) in Props/C14.lean: no_panic (the loop never panics and never blocks on an empty timer channel), not_before_delay (nothing is handed downstream sooner than delay after it entered), fifo_exactly_once (forwarded ++ still queued = entered, in order), timer_never_dead (the timer is always armed or a tick is pending, at most max(1 min, delay) ahead) with tick_forwards_due_head as progress. The pinned tree panicked (chunk forwarded by the timer case before its notification was consumed: witness replayed on the real filter); repaired by a fix: commit. Tie: delay_filter.go is rewritten to the virtual clock and given yield points; controlled schedules are executed on the real DelayFilter and compared with the model after every step (queue length, loop and sender positions, forwards with their virtual times).', level_note="Trusted: Lean kernel + standard axioms; Go channel-timer semantics for asynctimerchan=1 as modelled; ticks are never early (positive lateness). timer_never_dead's first wording (armed at most one minute ahead) was false for delays above one minute and is kept as a refuted _statement. The router's minimum delay (processChunks) is not part of these theorems; it is exercised by C01's harness. Fairness of the Go scheduler is assumed for 'eventually forwarded'.",
    trusted=LEAN_TB + ["hand-written transition system Model/Delay.lean tied to delay_filter.go by controlled-schedule runs (vtime + cosched) compared after every step",
                       "Go channel-timer semantics for asynctimerchan=1 as modelled (capacity-1 channel, non-blocking send at expiry, Stop/Reset); ticks are never early and carry a positive lateness",
                       "vrewrite, cosched, vtime"],
    assumptions=["the router's minimum delay (Router.processChunks) is covered by correspondence in C01's harness only; the theorems are about the DelayFilter",
                 "the select of the loop is only exercised when one case is ready (the choice between two ready cases is Go's; both orders are reachable through the other steps)"])

_DL_FILES = ["deadline/deadline.go", "deadline/timer_generic.go"]
seq(prop="C10", lean_targets=["TransportVerif.Props.C10"], pkg="packetio", run="^TestVerifRDL$", component="rdl",
    files=["rdl_test.go"], quick_n=100, thorough_n=800, search_n=600,
    variants=[dict(name="buffer", overlay_fn=_vtime(_DL_FILES)),
              dict(name="dpipe", pkg="dpipe", inpkg="dpipe", overlay_fn=_vtime(_DL_FILES)),
              dict(name="bridge", pkg="test", inpkg="test", overlay_fn=_vtime(_DL_FILES)),
              dict(name="udpconn", pkg="udp", inpkg="udp", overlay_fn=_vtime(_DL_FILES)),
              dict(name="vnetudp", pkg="vnet", inpkg="vnet", overlay_fn=_vtime(_DL_FILES + ["vnet/conn.go"]))],
    nontrivial=["expires-unobserved", "expires-while-blocked", "reset-after-expiry", "read-after-expiry", "read-expired-with-data", "dl-while-blocked"],
    rule="random histories (8..38 steps) of SetReadDeadline(zero | past | near | far), data arrivals, reads and idle periods under a virtual clock, the same generator against all five "
         "connection types (packetio.Buffer, dpipe, Bridge endpoint, udp listener Conn, vnet UDPConn); a read runs in its own goroutine and is observed as blocked or finished after "
         "every step. non-trivial = a deadline expires while nobody reads or while a read is blocked, is reset after expiry, a read starts after expiry (with or without data queued); "
         "distinct = hash of kind + ops text",
    design_ref="DESIGN.md 7.10", technique="Lean 4 proof: corollaries of the Deadline theorem (C09) for a reader that checks the deadline signal first and then waits for data or the signal; the same history generator runs against all five connection types under a virtual clock",
    level_text="Theorems (Props/C10.lean) about a reader that checks the deadline signal first and then waits for data or the signal, on top of the Deadline model of C09, for every history of SetReadDeadline(zero|past|future), arrivals, reads and idle periods: signal_iff_passed (the signal is raised exactly when a non-zero deadline is in force and has passed), timeout_only_if_passed, blocked_read_released_at_expiry, timeout_persists (every read keeps failing, also with data queued, until the deadline is set again), later_or_zero_deadline_reads_again, close_keeps_deadline, closed_never_blocks (Close keeps buffered data readable, then end of file; it never causes or clears a timeout). The same history generator runs, under a virtual clock, against all five connection types (packetio.Buffer, dpipe, Bridge endpoint, udp listener Conn, vnet UDPConn) and every step's observation (blocked / data / timeout) is compared with the model and the spec. The pinned vnet socket violated it (stale timer tick: early timeout after extending an unobserved expiry; reads blocking forever after expiry); repaired by a fix: commit (uses deadline.Deadline).", level_note="Trusted: Lean kernel + standard axioms; vtime and the time rewrite of the deadline package and vnet/conn.go; one Read in flight at a time; timer callbacks settled before each observation (their interleavings are C09's subject); udp.Conn is fed through listener.dispatchMsg rather than the kernel socket; Bridge endpoints are not closed.",
    trusted=LEAN_TB + ["Model/ReadDeadline.lean (a reader on top of Model/Deadline.lean) validated against all five connection types under the virtual clock (deadline package and vnet/conn.go rewritten to vtime)",
                       "udp.Conn is fed through listener.dispatchMsg (the read loop's own path) instead of the kernel socket"],
    assumptions=["one Read in flight at a time; timer callbacks are settled before each observation (their interleavings are C09's subject)"])

seq(prop="C11", lean_targets=["TransportVerif.Props.C11"], pkg="udp", run="^TestVerifListener$", component="listener",
    files=["listener_h_test.go"], quick_n=3000, thorough_n=100000,
    nontrivial=["creates-conn", "fresh-after-close", "filtered", "backlog-full", "listener-closed", "discards-unaccepted", "accept-after-close", "read-eof"],
    rule="random histories (15..75 steps) on a real listener (loopback socket) fed through its own dispatch path: datagrams from 6 remotes (same IP / different port and vice versa) with tagged "
         "payloads, Accept, reads with short and long slices, connection Close, listener Close; backlogs 0(=128),1,2,3,5,128, accept filters on the first byte. non-trivial = a datagram creates a "
         "connection (also a fresh one after Close), is filtered, hits a full backlog or a closed listener, listener Close discards unaccepted connections, Accept after Close, end-of-file; "
         "distinct = hash of the ops text",
    design_ref="DESIGN.md 7.11", technique="Lean 4 proof: the listener's table/backlog/per-connection FIFO model refines the per-remote spec by induction over histories; isolation and one-connection-per-remote as invariants; differential correspondence on a real listener",
    level_text='Theorems (Props/C11.lean): listener_refines_spec — for every backlog and accept filter and EVERY history of datagram arrivals from any remotes, Accept, Read, connection Close and listener Close, the model of the listener (connection table, backlog queue, per-connection packet FIFO) answers exactly as the per-remote spec of Spec/Listener.lean; one_conn_per_remote (at most one table entry per remote, pointing to an open connection of that remote, in every reachable state), delivered_to_own_conn (a datagram never touches a connection of another remote), first_datagram_creates_one (creation iff the listener accepts, the filter admits and the backlog has room; otherwise nothing changes), fresh_conn_after_close. The model is tied to udp/conn.go by differential runs on a real listener fed through its own dispatchMsg path: Accept/Read answers, connection table and backlog length after every step.', level_note='Trusted: Lean kernel + standard axioms (no Classical.choice); reading of C11 in Spec/Listener.lean; the kernel socket is not in the loop (datagrams are handed to listener.dispatchMsg), batch reads are not exercised; sequential histories (the concurrent part of the listener is C12); the per-connection buffer is a packet FIFO (C06).',
    trusted=LEAN_TB + ["hand-written Lean model Model/Listener.lean validated against udp.listener/Conn: answers of Accept/Read (L1) and the connection table and backlog length (L2)",
                       "datagrams are handed to listener.dispatchMsg (the read loop's own path), not sent through the kernel; the kernel socket is assumed in-order"],
    assumptions=["sequential histories; concurrent Accept/Close interleavings are C12's subject", "the per-connection buffer is a packet FIFO (C06)"])

def _yield_k(rel, funcs, kinds):
    from . import core
    return lambda work: core.yield_overlay(work, rel, funcs, kinds)


seq(prop="C12", lean_targets=["TransportVerif.Props.C12"], pkg="udp", run="^TestVerifLife$", component="life",
    files=["life_h_test.go"], quick_n=400, thorough_n=6000, search_n=2000,
    variants=[dict(overlay_fn=_yield_k("udp/conn.go", ["Accept", "Close", "getConn"], "select,lock,wait,wgadd"))],
    nontrivial=["accept-takes-after-close-began", "discards-unaccepted", "socket-closes", "waits-for-readloop", "wakes-acceptors", "arrival-creates", "accept-parks", "arrival-after-close-began", "aclose-begins"],
    rule="controlled schedules on a real listener (loopback socket): 0..2 connections already accepted, 0..2 waiting in the backlog, then 0..2 Accept callers, a listener Close, Close of accepted "
         "connections, Close of the connections the Accept callers of the phase return (role K), and datagram arrivals from new remotes (in one step, or in two: stopped inside getConn where it counts the connection) interleaved at the yield points of Accept (select), listener Close and Conn.Close (lock, wait); after every grant the socket state, "
         "backlog length, table size and every goroutine's position are compared with the model; at quiescence the implementation's own final state is judged: socket closed iff the listener and "
         "every connection returned by Accept are closed. non-trivial = Accept takes a connection after Close began, Close discards unaccepted connections, the step that closes the socket, a Close "
         "waiting for the read loop, Close waking blocked Accepts, arrivals; distinct = hash of the schedule",
    design_ref="DESIGN.md 7.12", technique="Lean 4 proof: step invariant of the reference-count transition system (socket closed iff listener and all handed-out connections closed, counter never negative); schedules replayed on the real listener under the controlled scheduler",
    level_text="Theorems (Props/C12.lean) about the reference-count transition system of the listener for every scenario (connections already accepted, connections waiting in the backlog, any number of Accept callers, a listener Close, Closes of accepted connections, datagram arrivals) and EVERY interleaving at the yield points of Accept, listener Close and Conn.Close: count_exact (the count that decides when the socket is closed = the listener's reference + queued connections + connections handed to clients whose Close has not started; no subtraction underflows), socket_closed_iff (closed exactly when all three are zero: never while the listener or a connection returned by Accept is open, and as soon as the last is closed), accept_fails_after_close, unaccepted_discarded, no_new_conn_after_close, inflight_arrival_discarded (an arrival that had passed getConn's admission check when Close began is queued and then discarded by the drain), lock_steps_wait, no_close_stuck (at quiescence nobody is blocked waiting for the read loop). The pinned tree violated it (Accept had taken the connection but not yet counted it when Close ran: the socket was closed under a connection returned with nil error; witness schedule in corpus/C12, replayed on a real listener); repaired by a fix: commit (a connection is counted from the moment it is queued). Tie: udp/conn.go gets yield points by the AST pass; schedules run on a real listener on a loopback socket and socket state, backlog length, table size and every goroutine's position are compared with the model after every grant; the implementation's final state is judged.", level_note="Trusted: Lean kernel + standard axioms; the read loop and the closer goroutine are unmanaged (their reaction to the count reaching zero is observed at quiescence); Go's select among two ready cases is fed to the model as observed (grantErr); at most one Close caller per object in the concurrent phase (idempotence exercised sequentially); port re-bindability and absence of leftover goroutines are not part of the theorems; the kernel socket is only asked whether it is closed.",
    trusted=LEAN_TB + ["hand-written transition system Model/ListenerLife.lean tied to udp/conn.go by controlled-schedule runs on a real listener compared after every grant",
                       "the read loop and the closer goroutine are unmanaged: their reaction to the count reaching zero is observed at quiescence; the kernel socket is only asked whether it is closed",
                       "vrewrite, cosched"],
    assumptions=["at most one Close caller per object in the concurrent phase (idempotence is exercised sequentially afterwards)", "port re-bindability and 'no goroutine left' are observed by the harness only"])

_CTX_KINDS = "select,recv,wait,go"
seq(prop="C17", lean_targets=["TransportVerif.Props.C17"], pkg="netctx", run="^TestVerifCtxConn$", component="ctx", always_judge=("end", "fin"),
    files=["ctx_h_test.go"], quick_n=300, thorough_n=2400, search_n=2000,
    variants=[dict(name="conn", overlay_fn=_yield_k("netctx/conn.go", ["ReadContext", "WriteContext"], _CTX_KINDS)),
              dict(name="packet", run="^TestVerifCtxPacket$", overlay_fn=_yield_k("netctx/packetconn.go", ["ReadFromContext", "WriteToContext"], _CTX_KINDS)),
              dict(name="connctx", pkg="connctx", run="^TestVerifCtx$", overlay_fn=_yield_k("connctx/connctx.go", ["ReadContext", "WriteContext"], _CTX_KINDS))],
    nontrivial=["cancel-during-call", "call-transfers-after-cancel", "select-both-ready-ctx", "select-both-ready-done", "deadline-restored", "returns-data-despite-cancel", "cancelled-before", "wait-parks", "recv-parks"],
    rule="controlled schedules of one to four consecutive context-aware reads and writes (stream wrapper, packet wrapper, deprecated connctx wrapper) over a scripted wrapped connection: "
         "contexts cancelled before the call (25%), or at a random instant between any two grants of the caller and the watcher goroutine (yield points: the watcher's select and <-done, the "
         "caller's wg.Wait(), every look of the wrapped blocking call at its state), data becoming available at random instants; Go's free choice when both select cases are ready is fed "
         "to the model as observed; after every grant both goroutines' positions, the wrapped connection's deadline and bytes, and the result are compared with the model; every completed "
         "operation is judged on the implementation's own report (bytes reported = bytes moved, stream order, context error only after cancellation, no raw timeout, no leftover deadline), "
         "and a cancelled operation must finish once everything runnable has run. non-trivial = cancellation during the call, transfer after cancellation, both select cases ready (either "
         "choice), deadline restored, data returned despite cancellation, context cancelled before the call, caller or watcher parked; distinct = hash of the schedule",
    design_ref="DESIGN.md 7.17", technique="Lean 4 proof: reachability invariant of the caller/watcher transition system over every schedule; session theorems by induction over operations; schedules replayed on the real wrappers under the controlled scheduler",
    level_text="Theorems (Props/C17.lean) about the caller/watcher transition system of one context-aware operation for every slice length, every amount of data, and EVERY schedule of caller grants, watcher grants (including Go's free choice between two ready select cases), a cancellation at any instant and data arriving at any instant: no_leftover_deadline (once the operation has returned the wrapped connection has no forced deadline and the watcher is gone), result_is_what_moved (reported count = bytes that left the wrapped connection, so a cancelled operation reporting zero transferred none and transferred bytes are reported even if the context fired; context error only if cancelled and nothing moved; the forced timeout never leaks; with a live context the result is data and no error), bytes_conserved (held + transferred = initial + arrived, at every instant), cancelled_returns (no state without runnable goroutine other than 'returned' or 'blocked in the wrapped call with a live context and nothing to transfer': nobody is left in wg.Wait, the select or <-done), cancelled_error, next_starts_clean, session_conserves and session_live_ops_unaffected (any sequence of operations with any cancellations: bytes reported in total = bytes offered - bytes still held; an operation with a live context is never timed out by an earlier one). Tie: netctx/conn.go, netctx/packetconn.go and connctx/connctx.go get yield points by the AST pass (also inside the watcher's go func); schedules run on the real wrappers over a scripted wrapped connection; positions of both goroutines, deadline, bytes and result are compared with the model after every grant.", level_note="Trusted: Lean kernel + standard axioms; the wrapped connection is the scripted one of harness/shim/ctxh (its blocking call returns when it can transfer or when its deadline is in the past; SetRead/WriteDeadline never fail), so errors of SetDeadline on the wrapped connection (errSetDeadline paths) and Close racing with an operation are not covered; the per-direction mutex is modelled as 'operations of one direction are consecutive'; a real pipe at both ends is not in the loop; promptness means 'returns once both goroutines have been scheduled', wall-clock latency is not modelled.",
    trusted=LEAN_TB + ["hand-written transition system Model/Ctx.lean tied to netctx/conn.go, netctx/packetconn.go and connctx/connctx.go by controlled-schedule runs compared after every grant",
                       "the scripted wrapped connection harness/shim/ctxh (deadline-aware blocking call, byte stream with position-dependent content)", "vrewrite, cosched"],
    assumptions=["SetReadDeadline/SetWriteDeadline of the wrapped connection do not fail", "operations of one direction are consecutive (the wrapper's mutex); Close is not interleaved"])

seq(prop="C01", lean_targets=["TransportVerif.Props.C01", "TransportVerif.Props.C01Reply", "TransportVerif.Props.C01NatStable"], pkg="vnet", run="^TestVerifE2E$", component="vnet", always_judge=("end", "read", "conc"),
    files=["e2e_h_test.go", "nat_h_test.go"], quick_n=3000, thorough_n=100000, search_n=3000,
    nontrivial=["read-translated-source", "read-translated-dest", "read-long-path", "drop-nat-filtered", "drop-queue-full", "drop-no-socket", "loopback", "route-several", "nat-allocates", "concurrent"],
    rule="generated topologies of real routers and hosts (root router, 0..3 LAN routers nested up to depth 3 with NAPT in all 9 mapping x filtering behaviours, several lifetimes, the default NAT, "
         "1:1 NAT with one or two pairs, static/automatic/several WAN addresses, bounded queues; 2..5 hosts with static, automatic or two addresses, hosts holding the local address of a 1:1 pair, "
         "unattached hosts; 1..2 sockets per host bound to specific, wildcard, loopback or foreign addresses, some connected) and traffic plans of 20..80 operations (300 in 10% of the thorough "
         "cases): writes (bursts of 1..5) from any socket to another socket's address, to source addresses seen in earlier reads (replies through the NATs), to a router's WAN-side address "
         "(own NAT, 1:1 pairs, mapped ports), loopback, unroutable, unheld and unbound addresses, payloads of 0..1500 bytes with the caller's buffer overwritten right after WriteTo; router "
         "iterations in any order (the harness calls Router.processChunks itself, routers are marked started white-box), reads, time steps across the mapping lifetimes, Close, late binds, "
         "router stop/start; every case ends by running all routers until the queues are empty and draining every socket. After every operation the answer, all queue lengths and all inbox "
         "lengths are compared with the model; every datagram the implementation hands to a reader is judged against the log of writes (payload of a write not delivered before; per-flow "
         "order for payloads that identify the write) and at the end everything the model delivered must have been delivered. Concurrent part (16 runs per quick check, 96 thorough): started routers with their own goroutines, a WAN with one or two NAT'd LANs, every LAN host sending 120 numbered datagrams to each WAN host and the WAN hosts to each other from concurrent goroutines (buffers overwritten after WriteTo), WAN hosts replying through the NAT mappings, all sockets drained concurrently; the tally (duplicates, corrupted, reordered within a flow, delivered to the wrong socket, wrong source shown, lost) must be all zero. non-trivial = a datagram read with NAT-translated source or "
         "destination or after >= 3 hops, drops by the NAT filter, a full queue, a missing socket, loopback traffic, a router iteration over several chunks, a NAT allocation; distinct = hash of the ops text",
    design_ref="DESIGN.md 7.1", technique="Lean 4 proof: invariants of the queue-granularity transition system over every topology and operation sequence (multiset accounting of write numbers, payload/origin ghost log, per-flow FIFO by hop-prefix invariant), NAT round trip from the C02 invariant; differential correspondence on generated topologies with hand-driven router loops",
    level_text="Theorems (Props/C01.lean) about the model of the vnet data path (UDPConn.WriteTo, Net.write, Router.push/processChunks at one chunk per step, child-router NAT inbound, parent NAT outbound, host demultiplexing, UDPConn.ReadFrom) for EVERY topology (any routers, parent links, subnets, NIC tables, queue capacities, NAT configurations, hosts) and EVERY sequence of writes, router iterations in any order, reads, binds, closes, time steps, starts and stops: accounting (the write numbers in the queues, in the hand-over logs and in the drop log are a permutation of 0..written-1: every datagram is in exactly one place exactly once), delivered_at_most_once, nothing_missing_at_rest, payload_intact (payload, origin socket and written destination of a chunk are those of its write wherever it is), only_bound_socket and deliver_target (a hand-over goes only to the open socket findSock returns, which covers the translated destination; no other socket changes), inbox_is_suffix and read_takes_next (what is read is the hand-over log in order, once; a connected socket returns only its peer's datagrams), flow_fifo_partial (two datagrams of one socket that travelled the same sequence of queues to the same socket are handed over in write order), same_flow_same_path (in every network whose NATs start freshly constructed and whose clock starts at 0, two datagrams written by one socket to one destination that reach the same socket travelled the same queues: every routing decision is a function of static data and the destination carried, and a NAT never forwards one external address to two internal addresses — Props/C01NatStable: inbound_key_stable, inbound_goes_to_the_owner, inbound_key_stable_one2one, for every NAT history) and hence flow_fifo (datagrams between the same two sockets are handed over in the order they were written, with no path hypothesis), push_keeps / deliver_keeps / route_pops_head (nothing is discarded by a started router below capacity or by a covering socket with room). Props/C01Reply.lean: reply_reaches_sender, reply_within_lifetime, reply_reaches_sender_one2one (after an outbound datagram src->dst left a reachable NAT showing ext, a datagram from dst to ext is forwarded to src, at once and any time within the mapping lifetime). The pinned tree violated the no-loss clause (a NAT translation error ended the router goroutine and stalled all later traffic; witness in corpus/C01); repaired by a fix: commit. Tie: generated topologies of real routers/hosts with hand-driven router loops, every answer and all queue and inbox lengths compared with the model after every operation; reads judged against the write log.", level_note="PARTIAL where stated: the reply theorems (reply_reaches_sender …) are for one NAT; their composition along a nested path is exercised by the harness only. flow_fifo is for networks whose NATs are freshly constructed at the start (Reach2); the other theorems hold for arbitrary initial NAT states (Reach). Trusted: Lean kernel + standard axioms; the topology is taken as built (address assignment is C13); one router iteration is the atomic unit and the harness runs the router loops itself, sequentially — real goroutine interleavings below queue granularity (the windows where Router.processChunks drops its mutex) are not scheduled deterministically: the concurrent part of the harness runs real router goroutines with concurrent senders and judges what arrives, but only samples schedules; chunk filters, minDelay/jitter, TCP chunks and the resolver are not modelled; the NAT clock is moved by shifting expiry stamps; slice aliasing of payloads is observed by the harness only.",
    trusted=LEAN_TB + ["hand-written Lean model Model/Vnet.lean (on Model/Nat.lean) validated on every run against real vnet routers, NATs, hosts and sockets: every answer (L1) and all queue and inbox lengths (L2) after every operation",
                       "the router loops are run by the harness (Router.processChunks called directly, stopFunc set white-box); NAT time by shifting expiry stamps; natctr op sets a NAT's port counter white-box (corpus case)",
                       "the write-log judge in Driver/Vnet.lean (model-independent: at most once, intact, per-flow order for identifying payloads; end-of-case loss check relative to the proved model)"],
    assumptions=["one router iteration (pop, route, hand over) is atomic; concurrent senders and router goroutines are not scheduled below that granularity",
                 "no chunk filters, no minDelay/jitter on the routers of the generated topologies (C14-C16 cover the filters)"])


class _C19:
    prop = "C19"
    design_ref = "DESIGN.md 7.19"
    technique = ("Lean 4 proof: lock discipline implies happens-before ordering of conflicting accesses (every execution); the discipline of the code is a "
                 "regenerated table checked by the kernel (decide +kernel); Go race detector on concurrent workloads as the dynamic oracle")
    level_text = ("Theorems (Props/C19.lean), for every execution (list of acquire/release/read/write/fork events of any threads, locks and locations) that "
                  "respects mutual exclusion: lockset_discipline_sound (if every access to a guarded location is made holding the location's guard, no two "
                  "conflicting accesses by different threads are unordered by happens-before: no data race on any guarded location), handover (a lock held "
                  "by t and later by t' was released by t and acquired by t' in between, in that order), fork_orders. Per-code-base obligation "
                  "(Props/C19Table.lean, table regenerated from /repo's working tree on every run by harness/tools/lockset): table_disciplined — every one of "
                  "the ~190 accesses to a guarded field of packetio.Buffer, deadline.Deadline, udp.listener, vnet.Router/UDPConn/TokenBucketFilter/"
                  "networkAddressTranslator/chunkQueue/udpConnMap/resolver (and every call of a 'caller holds the mutex' helper) holds its guard; the package "
                  "variable macAddrCounter is touched only through sync/atomic. The pinned tree violated the property (macAddrCounter unsynchronised: race "
                  "reported when networks are built in parallel; TokenBucketFilter.rate read outside its mutex — removed by the C15 fix); repaired by fix: commits.")
    level_note = ("PARTIAL in its tie: the table is produced by a syntactic, intraprocedural extractor (receiver-based accesses only; which fields are guarded, "
                  "constructor-only or goroutine-confined is a hand-written contract taken from the struct comments), and the step from 'the table is disciplined' "
                  "to the theorem's hypothesis is not formalised. Channel-based synchronisation (readCh, notify, done channels), sync.Once, WaitGroup and atomic.Value "
                  "are not modelled: fields protected that way are outside the table and covered by the race-detector workloads only. The race detector reports only "
                  "races that occur in the schedules the workloads happen to run.")
    engine = "lean-proof+regenerated-table+race-detector"


ALL = dict(SEQ)
ALL["C19"] = _C19

