"""Writes /verif/MANIFEST.json from the registry (props.py) — run after changing what is claimed."""
import json
import os
import sys

sys.path.insert(0, os.path.dirname(os.path.dirname(os.path.abspath(__file__))))
from vcheck import props  # noqa: E402

CLAIMED = [l.strip() for l in open(os.path.join(os.path.dirname(__file__), "claimed.txt")) if l.strip() and not l.startswith("#")]
NA = json.load(open(os.path.join(os.path.dirname(__file__), "not_applicable.json")))

checks = []
for pid in CLAIMED:
    c = props.ALL[pid]
    checks.append(dict(
        property_id=pid,
        quick_cmd="./check %s --tier quick" % pid,
        thorough_cmd="./check %s --tier thorough" % pid,
        evidence_file="/verif/evidence/%s.json" % pid,
        replay_cmd_template="./check %s --replay {path}" % pid,
        engine=c.engine if hasattr(c, "engine") else "lean-proof+correspondence",
        level_claimed=dict(category="proof", text=c.level_text, design_ref=c.design_ref),
        level_note=c.level_note,
        technique=c.technique,
    ))
m = dict(
    version=1,
    setup_cmd="./check setup",
    hooks=dict(
        guard="verif",
        enable="none committed: harness files (harness/inpkg/<pkg>/*.go -> <pkg>/zz_verif_*.go), the helper package verifshim/vh and rewritten sources are injected at check time with `go test -vet=off -overlay <generated.json>` run from /repo's working tree (DESIGN.md section 3, E3); the build tag `verif` is reserved and unused",
        baseline_off_cmd="cd /repo && GOFLAGS=-mod=mod GOPROXY=off GOSUMDB=off GOTOOLCHAIN=local go test -json -vet=off -count=1 -timeout 25m ./...",
        source_commits=[],
        add_only=True,
    ),
    engines=[
        dict(name="lean", path="lean/", serves_properties=CLAIMED,
             kind_free_text="Lake project TransportVerif (Lean 4.33.0, core only): Spec/, Model/, Link/, Proofs/, Props/Cxx.lean; Audit/Cxx.lean prints the axioms of every property theorem"),
        dict(name="vdrv", path="lean/Driver/", serves_properties=CLAIMED,
             kind_free_text="native line-protocol driver: runs the Lean model and the spec machine on the operation files produced by the Go harness"),
        dict(name="harness", path="harness/", serves_properties=CLAIMED,
             kind_free_text="Go in-package harnesses injected by overlay; generate operation sequences from VERIF_SEED, run the real package, record outputs and white-box state"),
        dict(name="vcheck", path="vcheck/", serves_properties=CLAIMED,
             kind_free_text="python3 orchestrator: lake build + axiom audit + forbidden-token scan, harness run, driver run, comparison (spec / L1 / L2), shrinking, replay and evidence files, known findings"),
    ],
    checks=checks,
    not_applicable=[x for x in NA if x["property_id"] not in CLAIMED],
    notes="Machine-checked proof in Lean 4 about hand-written executable models; every run re-checks the proofs (lake build, #print axioms) and re-validates the models against /repo's working tree by differential correspondence. See DESIGN.md (section 10 for what changed after the design). known_findings.json lists defects found and fixed (fix: commits in /repo).",
)
json.dump(m, open(os.path.join(os.path.dirname(os.path.dirname(os.path.abspath(__file__))), "MANIFEST.json"), "w"), indent=1)
print("claimed:", CLAIMED)
