"""C19 — data-race freedom of the concurrent-safe APIs.

1. harness/tools/lockset regenerates lean/TransportVerif/Generated/Lockset.lean from /repo's working tree
   (every access to a guarded field named in harness/contract.json, with the mutexes of the receiver held there).
2. lake build of Props/C19 (lockset_discipline_sound: lock discipline => no unordered conflicting accesses, proved
   for every execution) and Props/C19Table (table_disciplined: the regenerated table satisfies the discipline,
   checked by the kernel), axiom audit.
3. the Go race detector on concurrent workloads of every package (harness/inpkg/*/race_test.go): a report is a
   concrete failing schedule; it is also the search for a failing input when the table obligation breaks.
"""
import json
import os
import re
import subprocess
import time

from . import core
from .core import log

PROP = "C19"
PKGS = ["vnet", "packetio", "deadline", "udp", "dpipe"]
LEAN_TARGETS = ["TransportVerif.Props.C19", "TransportVerif.Props.C19Table"]
GEN = os.path.join(core.LEAN, "TransportVerif", "Generated", "Lockset.lean")
TRUSTED = [
    "Lean 4 kernel; axioms propext, Quot.sound only (decide +kernel adds none)",
    "harness/tools/lockset: syntactic, intraprocedural extraction of guarded-field accesses and held mutexes (receiver-based; "
    "aliases of the receiver, accesses through other variables of the same type and accesses from other packages are not seen)",
    "harness/contract.json: which fields are guarded by which mutex, which helpers are called with the mutex held (checked at "
    "every call site), which fields are constructor-only or goroutine-confined (hand-written from the struct comments)",
    "the step from the table to the theorem's hypothesis (Disciplined) is not formalised: it assumes the extraction is sound",
    "Go's race detector as the dynamic oracle (reports only races that occur in the executed schedules)",
]


def lockset_bin():
    out = os.path.join(core.VERIF, ".work", "lockset")
    src = os.path.join(core.HARNESS, "tools", "lockset")
    if not os.path.exists(out) or os.path.getmtime(out) < os.path.getmtime(os.path.join(src, "main.go")):
        os.makedirs(os.path.dirname(out), exist_ok=True)
        subprocess.check_call(["go", "build", "-o", out, "."], cwd=src, env=core.GOENV)
    return out


def race_run(work, pkg, rounds):
    m = core.shim_overlay()
    m.update(core.inpkg_overlay(pkg, names=["race_test.go"]))
    ov = core.write_overlay(work, m)
    rc, out, dt = core.go_test(work, ov, pkg, "^TestVerifRace$", {}, timeout=600, race=True, extra=["-count=%d" % rounds])
    races = []
    for blk in out.split("==================")[1:]:
        if "WARNING: DATA RACE" in blk:
            locs = re.findall(r"\n\s+(\S+\(\))\n\s+(/\S+:\d+)", blk)
            key = " <-> ".join(sorted(set("%s %s" % (f, p.replace(core.REPO + "/", "")) for f, p in locs[:1] + [x for x in locs if "Previous" in blk][:0])))
            firsts = re.findall(r"(?:Read|Write|Previous read|Previous write) at \S+ by [^\n]*\n\s+(\S+)\n\s+(\S+)", blk)
            sig = " / ".join("%s %s" % (f, p.split(" ")[0].replace(core.REPO + "/", "")) for f, p in firsts[:2])
            races.append(dict(signature=sig or key, report=blk.strip()[:3000]))
    return rc, out, races, dt


def run(tier, seed):
    t0 = time.time()
    work = core.Work(PROP)
    try:
        return _run(tier, seed, work, t0)
    finally:
        work.cleanup()


def _run(tier, seed, work, t0):
    violations = []
    # 1. regenerate the table
    rep = json.loads(subprocess.check_output([lockset_bin(), "-repo", core.REPO, "-contract", os.path.join(core.HARNESS, "contract.json"),
                                              "-lean", GEN], text=True))
    bad = rep.get("undisciplined") or []
    # 2. Lean
    ok, out = core.lake_build(LEAN_TARGETS)
    rows, araw, arc = ([], "", 1)
    if ok:
        rows, araw, arc = core.audit(PROP)
    tokens = core.forbidden_token_scan()
    leanchecker = None
    if ok and tier == "thorough":
        lk = core._lake_lock()
        try:
            pc = subprocess.run(["lake", "env", "leanchecker"] + LEAN_TARGETS, cwd=core.LEAN, stdout=subprocess.PIPE,
                                stderr=subprocess.STDOUT, text=True, timeout=3000)
        finally:
            lk.close()
        leanchecker = dict(rc=pc.returncode, tail=pc.stdout[-300:])
        if pc.returncode != 0:
            ok = False
            out += "\nleanchecker rejected the compiled modules:\n" + pc.stdout[-2000:]
    obligations = len(re.findall(r"^#print axioms", open(os.path.join(core.LEAN, "Audit", PROP + ".lean")).read(), re.M))
    discharged = sum(1 for r in rows if r["ok"]) if not tokens else 0
    log("[C19] lockset table: %d accesses, %d undisciplined; lean: build=%s obligations=%d discharged=%d forbidden-tokens=%d" % (
        rep["accesses"], len(bad), ok, obligations, discharged, len(tokens)))
    # 3. race detector workloads
    rounds = 1 if tier == "quick" else 5
    all_races, errors, runs = [], [], 0
    for pkg in PKGS:
        rc, gout, races, dt = race_run(work, pkg, rounds)
        runs += 1
        log("[C19] race workload %s: %d report(s), rc=%d, %.1fs" % (pkg, len(races), rc, dt))
        for r in races:
            r["pkg"] = pkg
        all_races += races
        if rc != 0 and not races:
            errors.append("%s: workload failed without a race report:\n%s" % (pkg, gout[-1500:]))
    known = [k for k in core.load_known() if k.get("property") == PROP and k.get("status") == "open"]
    printed_known = set()
    seen_sig = set()
    for r in all_races:
        if r["signature"] in seen_sig:
            continue
        seen_sig.add(r["signature"])
        kn = next((k for k in known if k.get("signature") and k["signature"] in r["signature"]), None)
        if kn:
            if kn["id"] not in printed_known:
                printed_known.add(kn["id"])
                print("KNOWN-FINDING: property=%s %s" % (PROP, kn["description"]), flush=True)
            continue
        p = core.write_replay(PROP, dict(property=PROP, kind="data-race", tier=tier, seed=seed, package=r["pkg"],
                                         race_report=r["report"],
                                         how_to_replay="cd /repo && go test -race -vet=off -overlay <overlay with harness/inpkg/%s/race_test.go> -run TestVerifRace ./%s/  (or ./check C19)" % (r["pkg"], r["pkg"])))
        violations.append(p)
        print("VIOLATION property=%s replay=%s" % (PROP, p), flush=True)
    broken = (not ok) or bad or tokens or any(not r["ok"] for r in rows) or (ok and len(rows) < obligations)
    if broken and not violations:
        p = core.write_replay(PROP, dict(property=PROP, kind="no-failing-input-found", tier=tier, seed=seed,
                                         broken_obligation="Props/C19Table.table_disciplined (regenerated lockset table) or the Lean build/audit",
                                         undisciplined_accesses=bad[:50], lake_output=(out[-2500:] if not ok else ""),
                                         forbidden_tokens=tokens[:20], audit=[r for r in rows if not r["ok"]],
                                         searched="race detector workloads of %s, %d round(s): no race reported" % (", ".join(PKGS), rounds)))
        violations.append(p)
        print("VIOLATION property=%s replay=%s no-failing-input-found" % (PROP, p), flush=True)
    if errors and not violations:
        p = core.write_replay(PROP, dict(property=PROP, kind="no-failing-input-found", tier=tier, seed=seed, harness_errors=errors[:5]))
        violations.append(p)
        print("VIOLATION property=%s replay=%s no-failing-input-found" % (PROP, p), flush=True)
    wall = time.time() - t0
    ev = dict(
        property_id=PROP, tier=tier, seed=seed, level="proof", wall_s=round(wall, 2), violations=len(violations),
        coverage=dict(
            obligations=obligations, discharged=discharged,
            checker_cmd="harness/tools/lockset -> lean/TransportVerif/Generated/Lockset.lean; cd /verif/lean && lake build %s && lake env lean Audit/C19.lean" % " ".join(LEAN_TARGETS),
            trusted_base=TRUSTED,
            theorems=[dict(name=r["theorem"], axioms=r["axioms"]) for r in rows],
            evaluations=rep["accesses"], distinct=rep["accesses"], distinct_nontrivial=rep["accesses"],
            rule="static part: every access (read or write, also calls of 'caller holds the mutex' helpers) to a guarded field of the receiver in every non-test "
                 "function of the packages named in harness/contract.json (10 types, 1 package variable) — regenerated from the working tree; dynamic part: "
                 "race detector on concurrent workloads: packetio.Buffer (2 writers, reader with deadlines, Count/Size, limit setters, Close), deadline.Deadline "
                 "(2 setters, Done/Err, Deadline), dpipe (both ends reading, writing, deadlines, Close), udp listener (3 clients, Accept loop, per-connection "
                 "readers/writers, Close of connections and listener), vnet (4 goroutines building routers and networks in parallel; a started WAN+NAT'd LAN "
                 "with 2 senders, 2 readers, TBF reconfigured under traffic, chunk filters added under traffic, sockets opened and closed). evaluations = table entries",
            samples=[dict(note="table entries", first=open(GEN).read().split("\n")[10:14])],
            race_workloads=dict(packages=PKGS, rounds=rounds, reports=len(all_races)),
            undisciplined=len(bad), known_findings_seen=sorted(printed_known), leanchecker=leanchecker,
        ),
        assumptions=["accesses that do not go through the receiver variable (aliases, other packages, reflection) are not in the table",
                     "fields listed in harness/contract.json notes as constructor-only or goroutine-confined are exempt",
                     "the race detector sees only the schedules that happen in the workloads"],
    )
    core.write_evidence(PROP, ev)
    code = 1 if violations else 0
    log("[C19] %s tier=%s accesses=%d undisciplined=%d races=%d errors=%d wall=%.1fs" % (
        "PASS" if code == 0 else "FAIL", tier, rep["accesses"], len(bad), len(all_races), len(errors), wall))
    return code
